//go:build !race

package vrt

// Without the race detector a parked goroutine blocks on a one-slot channel (no spinning): the hand-off costs one
// goroutine switch instead of a tour through every parked spinner.
type parker struct{ ch chan struct{} }

func newParker() parker { return parker{ch: make(chan struct{}, 1)} }

func (p *parker) park() { <-p.ch }

func (p *parker) unpark() {
	select {
	case p.ch <- struct{}{}:
	default:
	}
}

var ctlParker = newParker()
