package vrt

import (
	"reflect"
	"sync/atomic"
)

// Case is one arm of a rewritten select.
type Case struct {
	send bool
	ch   reflect.Value
	val  reflect.Value
}

func R[T any](ch <-chan T) Case { return Case{ch: reflect.ValueOf(ch)} }
func S[T any](ch chan<- T, v T) Case {
	return Case{send: true, ch: reflect.ValueOf(ch), val: reflect.ValueOf(&v).Elem()}
}

// mailbox for unbuffered channels: a parked sender's value, keyed by channel pointer.
type mail struct {
	val   reflect.Value
	taken bool
	hb    int32
}

// ptrTable is a tiny pointer-keyed table (linear search; no map: map operations are instrumented by the race
// detector even inside //go:norace functions, and the scheduler's state must stay invisible to it).
type ptrEntry struct {
	p uintptr
	m *mail
	c bool
}

type ptrTable []ptrEntry

//go:norace
func (t ptrTable) get(p uintptr) *ptrEntry {
	for i := range t {
		if t[i].p == p {
			return &t[i]
		}
	}
	return nil
}

//go:norace
func (t *ptrTable) at(p uintptr) *ptrEntry {
	if e := t.get(p); e != nil {
		return e
	}
	*t = append(*t, ptrEntry{p: p})
	return &(*t)[len(*t)-1]
}

var chanTab ptrTable

//go:norace
func mailOf(p uintptr) *mail {
	if e := chanTab.get(p); e != nil {
		return e.m
	}
	return nil
}

//go:norace
func setMail(p uintptr, m *mail) { chanTab.at(p).m = m }

//go:norace
func closedOf(p uintptr) bool {
	e := chanTab.get(p)
	return e != nil && e.c
}

//go:norace
func setClosed(p uintptr) { chanTab.at(p).c = true }

//go:norace
func recvReady(ch reflect.Value) bool {
	if !ch.IsValid() || ch.IsNil() {
		return false
	}
	if ch.Len() > 0 {
		return true
	}
	if m := mailOf(ch.Pointer()); m != nil && !m.taken {
		return true
	}
	return isClosed(ch)
}

// closedSet remembers channels known to be closed (closed through vrt.Close or observed closed).

// pinned keeps every channel recorded in closedSet/mailbox reachable until the execution ends: the tables are
// keyed by address, and the address of a collected channel could otherwise be handed to a NEW channel of the
// same execution, which would then be taken for closed (observed once in 2.5 million executions of the lock
// harness as a spurious second grant).
var pinned []reflect.Value

//go:norace
func pin(ch reflect.Value) { pinned = append(pinned, ch) }

//go:norace
func isClosed(ch reflect.Value) bool {
	p := ch.Pointer()
	if closedOf(p) {
		return true
	}
	if ch.Type().ChanDir()&reflect.RecvDir == 0 {
		return false
	}
	if ch.Len() > 0 {
		return false
	}
	// non-destructive probe: a receive from an empty open channel would block; from a closed one it yields (zero,false)
	x, ok := ch.TryRecv()
	if x.IsValid() && !ok {
		setClosed(p)
		pin(ch)
		return true
	}
	if x.IsValid() && ok {
		panic("vrt: closed-probe consumed a value (a goroutine outside the scheduler is sending)")
	}
	return false
}

//go:norace
func sendReady(ch reflect.Value) bool {
	if !ch.IsValid() || ch.IsNil() {
		return false
	}
	if closedOf(ch.Pointer()) {
		return true // will panic, as in Go
	}
	if ch.Cap() > 0 {
		return ch.Len() < ch.Cap()
	}
	m := mailOf(ch.Pointer())
	return m == nil || m.taken
}

type selWait struct {
	cases      []Case
	hasDefault bool
}

//go:norace
func (s *selWait) VrtReady(int) bool {
	if s.hasDefault {
		return true
	}
	for i := range s.cases {
		c := &s.cases[i]
		if c.send {
			if sendReady(c.ch) {
				return true
			}
		} else if recvReady(c.ch) {
			return true
		}
	}
	return false
}

// doRecv performs the receive that was found ready.
//
//go:norace
func doRecv(ch reflect.Value) (reflect.Value, bool) {
	if ch.Len() > 0 {
		x, ok := ch.TryRecv()
		return x, ok
	}
	if m := mailOf(ch.Pointer()); m != nil && !m.taken {
		m.taken = true
		atomic.LoadInt32(&m.hb) // acquire: pairs with the sender's release (a rendezvous is a happens-before edge)
		return m.val, true
	}
	// closed: perform the real receive as well, so that the race detector sees the close -> receive edge
	if ch.Type().ChanDir()&reflect.RecvDir != 0 {
		ch.TryRecv()
	}
	return reflect.Zero(ch.Type().Elem()), false // closed
}

type mailWait struct{ m *mail }

//go:norace
func (w *mailWait) VrtReady(int) bool { return w.m.taken }

//go:norace
func doSend(ch reflect.Value, v reflect.Value) {
	if closedOf(ch.Pointer()) {
		panic("send on closed channel")
	}
	if ch.Cap() > 0 {
		if !ch.TrySend(v) {
			panic("vrt: buffered send found ready but failed")
		}
		return
	}
	m := &mail{val: v}
	atomic.AddInt32(&m.hb, 1) // release
	setMail(ch.Pointer(), m)
	pin(ch)
	Sched(KSend, &mailWait{m}, "chan.send.rendezvous")
	if mailOf(ch.Pointer()) == m {
		setMail(ch.Pointer(), nil)
	}
}

// Select implements a rewritten select statement: returns the index of the chosen case, -1 for default.
func Select(hasDefault bool, cases ...Case) int {
	if !Managed() {
		sc := make([]reflect.SelectCase, 0, len(cases)+1)
		for _, c := range cases {
			if c.send {
				sc = append(sc, reflect.SelectCase{Dir: reflect.SelectSend, Chan: c.ch, Send: c.val})
			} else {
				sc = append(sc, reflect.SelectCase{Dir: reflect.SelectRecv, Chan: c.ch})
			}
		}
		if hasDefault {
			sc = append(sc, reflect.SelectCase{Dir: reflect.SelectDefault})
		}
		i, v, ok := reflect.Select(sc)
		if hasDefault && i == len(cases) {
			return -1
		}
		setLast(v, ok)
		return i
	}
	return selectManaged(hasDefault, cases)
}

// unmanaged goroutines keep the last received value in a goroutine-agnostic slot; a rewritten select reads
// it back immediately (Got1/Got2) on the same goroutine, and unmanaged code under test is single-threaded
// per select in the harnesses that run without the scheduler (sequential rigs), except for background
// listeners whose receives carry no value that is used. To stay safe under real concurrency the slot is
// per goroutine-unsafe only for value-carrying receives, which hydraide's listeners do not use.
var unmanagedLast struct {
	v  reflect.Value
	ok bool
}

//go:norace
func setLast(v reflect.Value, ok bool) {
	if Managed() {
		cur.lastVal, cur.lastOK = v, ok
		return
	}
	unmanagedLast.v, unmanagedLast.ok = v, ok
}

//go:norace
func selectManaged(hasDefault bool, cases []Case) int {
	w := &selWait{cases: cases, hasDefault: hasDefault}
	Sched(KSelect, w, "select")
	var ready []int
	for i := range cases {
		c := &cases[i]
		if (c.send && sendReady(c.ch)) || (!c.send && recvReady(c.ch)) {
			ready = append(ready, i)
		}
	}
	if len(ready) == 0 {
		if hasDefault {
			return -1
		}
		panic("vrt: select scheduled with no ready case")
	}
	pick := ready[0]
	if len(ready) > 1 {
		pick = ready[Choose(len(ready), "select-arm")]
	}
	c := &cases[pick]
	if c.send {
		doSend(c.ch, c.val)
	} else {
		v, ok := doRecv(c.ch)
		cur.lastVal, cur.lastOK = v, ok
	}
	return pick
}

//go:norace
func lastRecv() (reflect.Value, bool) {
	if Managed() {
		v, _ := cur.lastVal.(reflect.Value)
		return v, cur.lastOK
	}
	return unmanagedLast.v, unmanagedLast.ok
}

func Got1[T any](ch <-chan T) T {
	v, _ := lastRecv()
	if !v.IsValid() {
		var z T
		return z
	}
	x, _ := v.Interface().(T)
	return x
}

func Got2[T any](ch <-chan T) (T, bool) {
	v, ok := lastRecv()
	if !v.IsValid() {
		var z T
		return z, ok
	}
	x, _ := v.Interface().(T)
	return x, ok
}

func Recv1[T any](ch <-chan T) T {
	if !Managed() {
		return <-ch
	}
	selectManaged(false, []Case{{ch: reflect.ValueOf(ch)}})
	return Got1(ch)
}

func Recv2[T any](ch <-chan T) (T, bool) {
	if !Managed() {
		v, ok := <-ch
		return v, ok
	}
	selectManaged(false, []Case{{ch: reflect.ValueOf(ch)}})
	return Got2(ch)
}

func Send[T any](ch chan<- T, v T) {
	if !Managed() {
		ch <- v
		return
	}
	selectManaged(false, []Case{S(ch, v)})
}

func Close[T any](ch chan<- T) {
	if Managed() {
		Sched(KYield, nil, "close")
		setClosed(reflect.ValueOf(ch).Pointer())
		pin(reflect.ValueOf(ch))
	}
	close(ch)
}

//go:norace
func resetChans() {
	chanTab = chanTab[:0]
	pinned = nil
}
