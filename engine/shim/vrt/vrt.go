// Package vrt is the controlled runtime: a cooperative scheduler for managed threads (one runs at a time),
// environment events (virtual timers, cancellations), a virtual clock, and a stateless DFS explorer with
// deviation (preemption) bounding and optional state-key pruning.
//
// All scheduler state lives in plain globals touched only by the one running managed thread (or by the
// controller goroutine between executions); every function that touches it is //go:norace and closure-free so
// that the race detector sees no happens-before edge created by the scheduler itself.
package vrt

import (
	"fmt"
	"runtime"
	"sort"
	"strings"
	"sync/atomic"
)

// Kind of pending operation (used by Waitable.VrtReady).
const (
	KStart = iota
	KLock
	KRLock
	KCondWake
	KAtomic
	KYield
	KWGWait
	KSelect
	KSleep
	KOnce
	KSend
	KJoin
)

// Waitable is implemented by shim objects a thread can block on.
type Waitable interface{ VrtReady(kind int) bool }

type Thread struct {
	id      int
	gen     int32
	done    bool
	daemon  bool
	kind    int
	obj     Waitable
	label   string
	steps   int
	npre    bool // pending point is not a preemption candidate
	onStale func()
	lastVal any // value received by the last Select/Recv
	lastOK  bool
	Name    string
	Local   any    // harness-owned per-thread slot
	live    *int32 // goroutines of this thread's execution that have not finished unwinding
	pk      parker
	Sym     string // symmetry class: identical threads that have not taken their first step start in id order
	boot    int    // >0: a freshly spawned daemon that is still running to its first blocking operation (steps left)
}

func (t *Thread) ID() int { return t.id }

// Event is an environment event: a virtual timer or an untimed external action (context cancellation ...).
type Event struct {
	id       int
	name     string
	timed    bool
	deadline int64 // virtual ns
	fire     func()
	armed    bool
	period   int64
	inAct    bool
}

// spinLimit: consecutive steps after which a running thread is passed over if another thread is enabled.
const spinLimit = 2000

// spinRepeat: a thread that reaches the same scheduling point (operation and calling function) this many times
// without any other thread taking a step in between is taken to be in a retry loop.
const spinRepeat = 12

// runLabels counts, per scheduling-point label, the steps of the current uninterrupted run of one thread. A slice
// (not a map): map operations are instrumented by the race detector even inside //go:norace functions.
type labelCount struct {
	l string
	n int
}

var runLabels []labelCount

//go:norace
func runLabelsReset() { runLabels = runLabels[:0] }

//go:norace
func runLabelsInc(l string) {
	for i := range runLabels {
		if runLabels[i].l == l {
			runLabels[i].n++
			return
		}
	}
	runLabels = append(runLabels, labelCount{l, 1})
}

//go:norace
func spinning() bool {
	if last < 0 || last >= len(threads) {
		return false
	}
	l := threads[last].label
	for i := range runLabels {
		if runLabels[i].l == l {
			return runLabels[i].n >= spinRepeat
		}
	}
	return false
}

const (
	turnNone = int32(-1)
	turnCtl  = int32(-2) // controller (RunOnce caller)
)

var (
	active       bool
	gen          int32
	turn         int32 = turnNone
	cur          *Thread
	threads      []*Thread
	events       []*Event
	actT         []*Thread // unfinished threads (compacted periodically), ascending id
	actE         []*Event  // armed events (compacted periodically)
	nowNS        int64
	exec         *Exec
	prefix       []int
	last         int = -1
	cfg          *Config
	staleCnt     int32
	stepCap      int
	noBranch     bool // set by Quiesce: the rest of the execution takes the canonical choice everywhere, unrecorded
	consec       int  // consecutive steps of the running thread
	blockedSince int64
	curLive      *int32
	// LeakedExecs counts executions whose goroutines had not all unwound when the next one started.
	LeakedExecs int
)

// Epoch is virtual time zero (ns since Unix epoch): 2026-01-01T00:00:00Z.
const Epoch int64 = 1767225600 * 1e9

// Point records one scheduling/data decision.
type Point struct {
	N        int    // number of alternatives
	Chosen   int    // chosen alternative
	Cost     []int8 // deviation cost of each alternative (0/1)
	Key      string // state key at this point (if configured)
	Alt      []int  // identity of each alternative: thread id, or -1000-eventid, or -1-i for data choices
	IsData   bool
	NoPreemt bool
}

type Exec struct {
	Points       []Point
	Deadlock     bool
	ForcedYields int  // times the fairness rule passed over a thread that ran spinLimit consecutive steps
	Starved      bool // Deadlock was declared because every worker stayed blocked for StarveNS of virtual time
	Horizon      bool
	Blocked      []string // labels of blocked non-daemon threads at deadlock
	Panics       []string
	Trace        []string
	Steps        int
	Diverged     string
	Cost         int
	MaxThread    int
	Preempted    []string // label (pending operation @ calling function) of the running thread at every deviation that switched away from it
}

func (x *Exec) Choices() []int {
	c := make([]int, len(x.Points))
	for i, p := range x.Points {
		c[i] = p.Chosen
	}
	return c
}

type Config struct {
	Bound     int // max deviations; <0 = unbounded
	StateKey  func() string
	TraceOn   bool
	Sites     bool                    // labels carry the calling function (needed by NoPreempt filters on packages)
	StepCap   int                     // max scheduling steps per execution (horizon); default 50000
	NoPreempt func(label string) bool // points whose label matches are not preemption candidates
	Probe     func(name string, a ...any)
	OnPoint   func() // observation hook run by the scheduler at every decision (all threads are parked)
	NoRecord  bool   // do not record decision points (sequential harnesses that never branch; choice 0 everywhere)
	EnvIdle   bool   // environment events (timers) are offered only when no thread can run (harnesses that drive timer ticks from an explicit environment thread)
	StarveNS  int64  // virtual time all worker threads may stay blocked while only timers/daemons run (default 600 s)
}

//go:norace
func Managed() bool { return active && cur != nil && cur.gen == gen }

//go:norace
func Cur() *Thread { return cur }

//go:norace
func NowNS() int64 { return Epoch + nowNS }

//go:norace
func Advance(ns int64) {
	if ns > 0 {
		nowNS += ns
	}
}

//go:norace
func loadTurn() int32 { return turn }

//go:norace
func setTurn(t int32) {
	turn = t
	if t >= 0 && int(t) < len(threads) {
		threads[t].pk.unpark()
	} else if t == turnCtl {
		ctlParker.unpark()
	}
}

//go:norace
func isStale(t *Thread) bool { return t.gen != gen }

// waitTurn parks the calling goroutine until it is its turn; a thread of a finished execution exits.
//
//go:norace
func waitTurn(t *Thread) {
	for {
		if isStale(t) {
			staleExit(t)
		}
		if loadTurn() == int32(t.id) {
			if isStale(t) {
				staleExit(t)
			}
			return
		}
		t.pk.park()
	}
}

// SchedStale is Sched with a hook that restores an invariant (Cond.Wait re-locks) if the goroutine is unwound
// while parked because its execution ended.
//
//go:norace
func SchedStale(kind int, obj Waitable, label string, onStale func()) {
	if !active || cur == nil || isStale(cur) {
		return
	}
	t := cur
	t.onStale = onStale
	Sched(kind, obj, label)
	t.onStale = nil
}

// siteCache: pc -> function name, an open-addressed table (no map: see runLabels).
type siteEntry struct {
	pc uintptr
	s  string
}

var siteCache [8192]siteEntry

//go:norace
func siteLookup(pc uintptr) (string, bool) {
	for i, h := 0, int(pc>>2)&8191; i < 64; i, h = i+1, (h+1)&8191 {
		if siteCache[h].pc == pc {
			return siteCache[h].s, true
		}
		if siteCache[h].pc == 0 {
			return "", false
		}
	}
	return "", false
}

//go:norace
func siteStore(pc uintptr, s string) {
	for i, h := 0, int(pc>>2)&8191; i < 64; i, h = i+1, (h+1)&8191 {
		if siteCache[h].pc == 0 || siteCache[h].pc == pc {
			siteCache[h] = siteEntry{pc, s}
			return
		}
	}
}

// site returns the name of the nearest calling function outside the shim packages.
//
//go:norace
func site() string {
	var pcs [10]uintptr
	n := runtime.Callers(3, pcs[:])
	for i := 0; i < n; i++ {
		pc := pcs[i]
		s, ok := siteLookup(pc)
		if !ok {
			s = "?"
			if f := runtime.FuncForPC(pc - 1); f != nil {
				s = f.Name()
			}
			siteStore(pc, s)
		}
		if !strings.Contains(s, "/vshim/") {
			return s
		}
	}
	return "?"
}

//go:norace
func staleExit(t *Thread) {
	t.done = true
	if h := t.onStale; h != nil {
		t.onStale = nil
		h()
	}
	runtime.Goexit()
}

// Sched is the scheduling point called by shim operations BEFORE the real operation.
//
//go:norace
func Sched(kind int, obj Waitable, label string) {
	if !active {
		return
	}
	t := cur
	if t == nil || isStale(t) {
		return
	}
	t.kind, t.obj, t.label = kind, obj, label
	if cfg.Sites {
		t.label = label + "@" + site()
	}
	t.npre = cfg.NoPreempt != nil && cfg.NoPreempt(t.label)
	next := decide()
	if next == int32(t.id) {
		return
	}
	setTurn(next)
	waitTurn(t)
	cur = t
}

//go:norace
func Yield(label string) { Sched(KYield, nil, label) }

// Choose is a data choice (which ready select arm, which map order ...) recorded in the same choice sequence.
//
//go:norace
func Choose(n int, label string) int {
	if !Managed() || n <= 1 {
		return 0
	}
	i := len(exec.Points)
	c := 0
	if i < len(prefix) {
		c = prefix[i]
		if c >= n {
			exec.Diverged = fmt.Sprintf("data choice %d of %d at point %d (%s)", c, n, i, label)
			c = 0
		}
	}
	p := Point{N: n, Chosen: c, IsData: true, Cost: make([]int8, n), Alt: make([]int, n)}
	for k := 0; k < n; k++ {
		p.Alt[k] = -1 - k
	}
	exec.Points = append(exec.Points, p)
	if cfg.TraceOn {
		exec.Trace = append(exec.Trace, fmt.Sprintf("t%d:choose(%s)=%d/%d", cur.id, label, c, n))
	}
	return c
}

// decide picks the next thread to run (or fires environment events until one is runnable).
// Returns the thread id, or turnCtl when the execution is over.
//
//go:norace
func decide() int32 {
	for {
		exec.Steps++
		if cfg.OnPoint != nil {
			cfg.OnPoint()
		}
		if exec.Steps > stepCap {
			exec.Horizon = true
			recordBlocked()
			return finish()
		}
		if exec.Steps&63 == 0 {
			compact()
		}
		// A freshly spawned background goroutine (daemon spawn site) runs straight to its first blocking operation:
		// its start-up is not interleaved with other threads (no choice point). This keeps listener start-up from
		// multiplying the schedules; what a listener does after its first wait is scheduled like any thread.
		if bt := bootThread(); bt != nil {
			bt.boot--
			bt.steps++
			if cfg.TraceOn {
				exec.Trace = append(exec.Trace, fmt.Sprintf("t%d:%s (start-up)", bt.id, bt.label))
			}
			if bt.id != last {
				consec = 0
				runLabelsReset()
			}
			last = bt.id
			return int32(bt.id)
		}
		var progs, envs []int
		var symSeen map[string]bool
		lastEnabled := false
		alldone := true
		workerEnabled := false
		for _, t := range actT {
			if t.done {
				continue
			}
			if !t.daemon {
				alldone = false
			}
			if t.obj == nil || t.obj.VrtReady(t.kind) {
				if !t.daemon {
					workerEnabled = true
				}
				if t.Sym != "" && t.kind == KStart && t.steps == 0 {
					// symmetry reduction: among identical, not yet started threads only the lowest id may start
					if symSeen == nil {
						symSeen = map[string]bool{}
					}
					if symSeen[t.Sym] {
						continue
					}
					symSeen[t.Sym] = true
				}
				if t.id == last {
					lastEnabled = true
				} else {
					progs = append(progs, t.id)
				}
			}
		}
		if alldone {
			return finish()
		}
		if workerEnabled {
			blockedSince = nowNS
		} else {
			lim := cfg.StarveNS
			if lim == 0 {
				lim = 600e9
			}
			if nowNS-blockedSince > lim {
				// every worker thread has been blocked for 10 virtual minutes while only periodic timers and
				// daemons ran: nothing in hydraide waits that long on a timer, so nothing will ever wake them
				exec.Deadlock, exec.Starved = true, true
				recordBlocked()
				return finish()
			}
		}
		// environment events: untimed ones always; timed ones only with the earliest deadline
		minDL := int64(-1)
		for _, e := range actE {
			if e.armed && e.timed && (minDL < 0 || e.deadline < minDL) {
				minDL = e.deadline
			}
		}
		for _, e := range actE {
			if e.armed && (!e.timed || e.deadline == minDL) {
				envs = append(envs, e.id)
			}
		}
		if len(envs) > 1 {
			sort.Ints(envs)
		}
		// Fairness: code under test contains retry loops without a blocking operation (e.g. SummonSwamp re-reading
		// the swamp map until the closing instance has been removed). A thread that has run spinLimit consecutive
		// steps while others could run is passed over once, so such a loop cannot starve the thread it waits for.
		if lastEnabled && len(progs) > 0 && (consec >= spinLimit || spinning()) {
			// The spinning thread is not offered at this decision at all: letting it continue would only repeat
			// iterations of its retry loop (a stuttering step), and offering it as a free alternative makes the
			// explorer unroll the loop.
			lastEnabled = false
			consec = 0
			runLabelsReset()
			exec.ForcedYields++
			if cfg.TraceOn {
				exec.Trace = append(exec.Trace, fmt.Sprintf("forced-yield: progs=%v prefixlen=%d points=%d", progs, len(prefix), len(exec.Points)))
			}
		}
		anyProg := lastEnabled || len(progs) > 0
		if !anyProg && len(envs) == 0 {
			exec.Deadlock = true
			recordBlocked()
			return finish()
		}
		// canonical order: running thread (if enabled), other threads ascending, then events ascending
		var alt []int
		var cost []int8
		npre := false
		if lastEnabled {
			alt = append(alt, last)
			cost = append(cost, 0)
			npre = threads[last].npre
		}
		for _, id := range progs {
			alt = append(alt, id)
			c := int8(0)
			if lastEnabled {
				c = 1
			}
			cost = append(cost, c)
		}
		for _, id := range envs {
			if cfg.EnvIdle && anyProg {
				break
			}
			alt = append(alt, -1000-id)
			c := int8(0)
			if anyProg {
				c = 1
			}
			cost = append(cost, c)
		}
		c := 0
		if len(alt) > 1 && !noBranch {
			i := len(exec.Points)
			if i < len(prefix) {
				c = prefix[i]
				if c >= len(alt) {
					exec.Diverged = fmt.Sprintf("choice %d of %d at point %d", c, len(alt), i)
					c = 0
				}
			}
			if !cfg.NoRecord {
				p := Point{N: len(alt), Chosen: c, Cost: cost, Alt: alt, NoPreemt: npre}
				if cfg.StateKey != nil && i >= len(prefix)-1 {
					p.Key = stateKey() // not needed inside the replayed prefix: the explorer only branches after it
				}
				exec.Points = append(exec.Points, p)
			}
		}
		exec.Cost += int(cost[c])
		if cost[c] > 0 && lastEnabled {
			exec.Preempted = append(exec.Preempted, threads[last].label)
		}
		a := alt[c]
		if a <= -1000 {
			e := events[-1000-a]
			if cfg.TraceOn {
				exec.Trace = append(exec.Trace, "env:"+e.name)
			}
			fireEvent(e)
			continue
		}
		t := threads[a]
		t.steps++
		if cfg.TraceOn {
			exec.Trace = append(exec.Trace, fmt.Sprintf("t%d:%s", t.id, t.label))
		}
		if a == last {
			consec++
		} else {
			consec = 0
			runLabelsReset()
		}
		runLabelsInc(t.label)
		last = a
		return int32(a)
	}
}

// compact drops finished threads and disarmed events from the lists the scheduler iterates over (executions that
// run hundreds of histories on one server accumulate thousands of them).
//
//go:norace
func compact() {
	k := 0
	for _, t := range actT {
		if !t.done {
			actT[k] = t
			k++
		}
	}
	for i := k; i < len(actT); i++ {
		actT[i] = nil
	}
	actT = actT[:k]
	k = 0
	for _, e := range actE {
		if e.armed {
			actE[k] = e
			k++
		} else {
			e.inAct = false
		}
	}
	for i := k; i < len(actE); i++ {
		actE[i] = nil
	}
	actE = actE[:k]
}

//go:norace
func bootThread() *Thread {
	for _, t := range actT {
		if t.boot > 0 && !t.done {
			if t.obj == nil || t.obj.VrtReady(t.kind) {
				return t
			}
			t.boot = 0 // reached its first blocking operation
		}
	}
	return nil
}

//go:norace
func stateKey() string {
	var b strings.Builder
	b.WriteString(cfg.StateKey())
	for _, t := range actT {
		fmt.Fprintf(&b, "|%d:%d:%v:%v", t.id, t.steps, t.done, t.done || t.obj == nil || t.obj.VrtReady(t.kind))
	}
	for _, e := range actE {
		if e.armed {
			fmt.Fprintf(&b, "|e%d", e.id)
		}
	}
	return b.String()
}

//go:norace
func recordBlocked() {
	for _, t := range actT {
		if !t.done && !t.daemon {
			exec.Blocked = append(exec.Blocked, fmt.Sprintf("t%d(%s):%s", t.id, t.Name, t.label))
		}
	}
}

//go:norace
func finish() int32 {
	return turnCtl
}

//go:norace
func fireEvent(e *Event) {
	if e.timed {
		if e.deadline > nowNS {
			nowNS = e.deadline
		}
		if e.period > 0 {
			e.deadline += e.period
		} else {
			e.armed = false
		}
	} else {
		e.armed = false
	}
	// the event body runs on the deciding goroutine but must not itself hit scheduling points
	saved := cur
	cur = nil
	e.fire()
	cur = saved
}

// NewEvent registers an environment event. Timed events fire in deadline order; untimed ones at any time.
//
//go:norace
func NewEvent(name string, timed bool, afterNS int64, periodNS int64, fire func()) *Event {
	e := &Event{id: len(events), name: name, timed: timed, deadline: nowNS + afterNS, fire: fire, armed: true, period: periodNS, inAct: true}
	events = append(events, e)
	actE = append(actE, e)
	return e
}

//go:norace
func (e *Event) Stop() bool {
	was := e.armed
	e.armed = false
	return was
}

//go:norace
func (e *Event) Reset(afterNS int64) bool {
	was := e.armed
	e.armed = true
	e.deadline = nowNS + afterNS
	if !e.inAct {
		e.inAct = true
		actE = append(actE, e)
	}
	return was
}

//go:norace
func (e *Event) Armed() bool { return e.armed }

// ---- threads ----

//go:norace
func spawn(fn func(), daemon bool, name string) *Thread {
	t := &Thread{id: len(threads), gen: gen, kind: KStart, label: "start", daemon: daemon, Name: name, pk: newParker()}
	if daemon && name == "" {
		t.boot = 64
	}
	if cfg != nil && cfg.NoPreempt != nil {
		t.npre = true
	}
	threads = append(threads, t)
	actT = append(actT, t)
	if len(threads) > exec.MaxThread {
		exec.MaxThread = len(threads)
	}
	t.live = curLive
	atomic.AddInt32(t.live, 1)
	go threadMain(t, fn)
	return t
}

// DaemonSites lists substrings of caller function names whose spawned goroutines are daemons.
var DaemonSites []string

//go:norace
func isDaemonSite() bool {
	if len(DaemonSites) == 0 {
		return false
	}
	// the spawning function is one of the first frames above Go0 (generic wrappers and inlining shift it)
	var pcs [6]uintptr
	n := runtime.Callers(3, pcs[:])
	if n == 0 {
		return false
	}
	fr := runtime.CallersFrames(pcs[:n])
	for i := 0; i < 5; i++ {
		f, more := fr.Next()
		if !strings.Contains(f.Function, "/vshim/") {
			for _, s := range DaemonSites {
				if strings.Contains(f.Function, s) {
					return true
				}
			}
			return false // only the nearest frame outside the shims decides
		}
		if !more {
			break
		}
	}
	return false
}

// Go0 is what a rewritten `go f()` calls.
//
//go:norace
func Go0(f func()) {
	if !Managed() {
		go f()
		return
	}
	Sched(KYield, nil, "go")
	spawn(f, isDaemonSite(), "")
}

func Go1[A any](f func(A), a A)                       { Go0(func() { f(a) }) }
func Go2[A, B any](f func(A, B), a A, b B)            { Go0(func() { f(a, b) }) }
func Go3[A, B, C any](f func(A, B, C), a A, b B, c C) { Go0(func() { f(a, b, c) }) }

// Go spawns a named worker thread from harness code.
//
//go:norace
func Go(name string, f func()) *Thread {
	if !Managed() {
		panic("vrt.Go outside a managed execution")
	}
	return spawn(f, false, name)
}

// GoSym spawns a worker that belongs to a class of identical threads (same program, interchangeable): the scheduler
// lets unstarted members of a class start in id order only.
//
//go:norace
func GoSym(name, sym string, f func()) *Thread {
	t := Go(name, f)
	t.Sym = sym
	return t
}

//go:norace
func GoDaemon(name string, f func()) *Thread {
	if !Managed() {
		panic("vrt.GoDaemon outside a managed execution")
	}
	return spawn(f, true, name)
}

// SpawnFromEvent is used by event bodies (AfterFunc) to start a managed thread.
//
//go:norace
func SpawnFromEvent(name string, f func()) { spawn(f, false, name) }

// joinHB: a finished thread releases, the joiner acquires (goroutine exit -> join is a happens-before edge in any
// real join primitive).
var joinHB int32

type joinWait struct{ t *Thread }

//go:norace
func (j *joinWait) VrtReady(int) bool { return j.t.done }

// Join blocks (visibly) until t has finished.
//
//go:norace
func Join(t *Thread) {
	Sched(KJoin, &joinWait{t}, "join")
	atomic.LoadInt32(&joinHB)
}

//go:norace
func (t *Thread) Done() bool { return t.done }

//go:norace
func threadMain(t *Thread, fn func()) {
	defer atomic.AddInt32(t.live, -1) // registered first, runs last: the goroutine has fully unwound
	waitTurn(t)
	cur = t
	defer threadExit(t)
	fn()
}

//go:norace
func threadExit(t *Thread) {
	if isStale(t) {
		t.done = true
		return
	}
	if r := recover(); r != nil {
		buf := make([]byte, 4096)
		n := runtime.Stack(buf, false)
		exec.Panics = append(exec.Panics, fmt.Sprintf("t%d(%s): %v\n%s", t.id, t.Name, r, buf[:n]))
	}
	atomic.AddInt32(&joinHB, 1)
	t.done = true
	t.obj = nil
	cur = t
	next := decide()
	setTurn(next)
}

// RunOnce executes body as thread 0 under the scheduler, following the choice prefix then choice 0.
//
//go:norace
func RunOnce(c *Config, pfx []int, body func()) *Exec {
	cfg = c
	stepCap = c.StepCap
	if stepCap == 0 {
		stepCap = 50000
	}
	gen++
	threads = nil
	events = nil
	actT = nil
	actE = nil
	resetChans()
	nowNS = 0
	blockedSince = 0
	noBranch = false
	consec = 0
	runLabelsReset()
	prefix = pfx
	exec = &Exec{}
	last = -1
	cur = nil
	active = true
	curLive = new(int32)
	setTurn(turnNone)
	t0 := spawn(body, false, "main")
	// first decision made by the controller
	cur = nil
	next := decide()
	setTurn(next)
	_ = t0
	for loadTurn() != turnCtl {
		ctlParker.park()
	}
	active = false
	cur = nil
	x := exec
	gen++ // everything still parked is now stale and unwinds
	setTurn(turnNone)
	for _, t := range threads {
		t.pk.unpark()
	}
	// Stale goroutines must have unwound completely (deferred unlocks included) before the next execution
	// starts: a stale goroutine that reaches a shim operation while another execution is active would be taken
	// for that execution's running thread. The bound is a liveness fallback only (a goroutine blocked for good
	// in a real primitive), counted in LeakedExecs.
	for i := 0; atomic.LoadInt32(curLive) > 0; i++ {
		if i > 2000000 {
			LeakedExecs++
			break
		}
		runtime.Gosched()
	}
	threads = nil
	events = nil
	return x
}

//go:norace
func anyAlive() bool {
	for _, t := range threads {
		if !t.done {
			return true
		}
	}
	return false
}

// Probe is an observation hook placed by the rewriter at configured function entries.
//
//go:norace
func Probe(name string, a ...any) {
	if active && cfg != nil && cfg.Probe != nil {
		cfg.Probe(name, a...)
	}
}

// ---- explorer ----

type Stats struct {
	Execs, Deadlocks, Horizons, Pruned, States int
	MaxPoints, MaxSteps, MaxThreads            int
	BoundDone                                  int // highest deviation bound fully explored (-1 none)
	Capped                                     bool
	Diverged                                   int
}

type Explorer struct {
	Cfg      Config
	Body     func()
	Check    func(x *Exec) // oracle, called with the scheduler inactive
	Stop     func() bool   // polled between executions (time budget)
	MaxExecs int
	Stats    Stats
	visited  map[string]struct{}
	Seed     int64
	// Shard restricts level-1 subtrees: only alternatives whose running index %ShardN == Shard are explored.
	Shard, ShardN int
	altCounter    int
	unowned       int // executions run only to discover deeper levels (counted by shard 0)
}

// Run explores every schedule with at most Cfg.Bound deviations (iteratively 0..Bound when iterative is set).
func (e *Explorer) Run() {
	e.visited = map[string]struct{}{}
	e.Stats.BoundDone = -1
	e.rec(nil, 0, 0)
	if !e.Stats.Capped {
		e.Stats.BoundDone = e.Cfg.Bound
	}
	e.Stats.States = len(e.visited)
}

func (e *Explorer) capped() bool {
	if e.Stats.Capped {
		return true
	}
	if (e.MaxExecs > 0 && e.Stats.Execs >= e.MaxExecs) || (e.Stop != nil && (e.Stats.Execs+e.unowned)%16 == 0 && e.Stop()) {
		e.Stats.Capped = true
	}
	return e.Stats.Capped
}

func (e *Explorer) rec(pfx []int, pfxCost int, depth int) {
	if e.capped() {
		return
	}
	x := RunOnce(&e.Cfg, pfx, e.Body)
	// With sharding, the executions of the first two levels (the root and its children) are run by every shard -
	// they are needed to discover the third level, whose subtrees are dealt out round-robin - but they are counted
	// and checked by shard 0 only.
	const shardDepth = 1
	owned := e.ShardN <= 1 || depth > shardDepth || e.Shard == 0
	if owned {
		e.Stats.Execs++
		if len(x.Points) > e.Stats.MaxPoints {
			e.Stats.MaxPoints = len(x.Points)
		}
		if x.Steps > e.Stats.MaxSteps {
			e.Stats.MaxSteps = x.Steps
		}
		if x.MaxThread > e.Stats.MaxThreads {
			e.Stats.MaxThreads = x.MaxThread
		}
		if x.Deadlock {
			e.Stats.Deadlocks++
		}
		if x.Horizon {
			e.Stats.Horizons++
		}
		if x.Diverged != "" {
			e.Stats.Diverged++
		}
		if e.Check != nil {
			e.Check(x)
		}
	} else {
		e.unowned++
	}
	cost := pfxCost
	for i := len(pfx); i < len(x.Points); i++ {
		p := &x.Points[i]
		for alt := 1; alt < p.N; alt++ {
			c := cost + int(p.Cost[alt])
			if p.Cost[alt] > 0 && p.NoPreemt && p.Alt[alt] > -1000 {
				continue // switching away here is outside the harness' preemption set
			}
			if e.Cfg.Bound >= 0 && c > e.Cfg.Bound {
				continue
			}
			if depth == shardDepth && e.ShardN > 1 {
				e.altCounter++
				if e.altCounter%e.ShardN != e.Shard {
					continue
				}
			}
			if e.Cfg.StateKey != nil && !p.IsData {
				vk := fmt.Sprintf("%s#%d#%d", p.Key, p.Alt[alt], c)
				if _, ok := e.visited[vk]; ok {
					e.Stats.Pruned++
					continue
				}
				e.visited[vk] = struct{}{}
			}
			np := make([]int, i+1)
			for k := 0; k < i; k++ {
				np[k] = x.Points[k].Chosen
			}
			np[i] = alt
			e.rec(np, c, depth+1)
			if e.capped() {
				return
			}
		}
		cost += int(p.Cost[p.Chosen])
	}
}

// Replay runs one recorded schedule.
func Replay(c *Config, choices []int, body func()) *Exec { return RunOnce(c, choices, body) }

// SortedKeys helper for deterministic dumps.
func SortedKeys[M ~map[K]V, K comparable, V any](m M) []K {
	ks := make([]K, 0, len(m))
	for k := range m {
		ks = append(ks, k)
	}
	sort.Slice(ks, func(i, j int) bool { return fmt.Sprint(ks[i]) < fmt.Sprint(ks[j]) })
	return ks
}

// ClockVirtual reports whether unmanaged callers inside an active execution (event bodies) see virtual time.
//
//go:norace
func ClockVirtual() bool { return active || ForceVirtualClock }

// ForceVirtualClock makes vtime.Now answer the virtual clock (Epoch + Advance) in sequential harnesses too, so
// that bytes derived from timestamps (file headers) are identical in every run.
var ForceVirtualClock bool

// PendingKinds calls f for every unfinished thread of the running execution with its name and the kind of its
// pending operation (observation hooks only).
//
//go:norace
func PendingKinds(f func(name string, kind int, daemon bool)) {
	for _, t := range actT {
		if !t.done {
			f(t.Name, t.kind, t.daemon)
		}
	}
}

// SetClock sets the virtual clock to Epoch+ns (harnesses that run many independent histories inside one
// execution restart the clock for each, so that server-assigned timestamps are comparable between histories).
//
//go:norace
func SetClock(ns int64) { nowNS = ns; blockedSince = ns }

type drainWait struct{ self *Thread }

//go:norace
func (d *drainWait) VrtReady(int) bool {
	for _, t := range actT {
		if t != d.self && !t.done && (t.obj == nil || t.obj.VrtReady(t.kind)) {
			return false
		}
	}
	return true
}

// Drain parks the calling thread until no other thread can run (no environment event is fired for it): background
// goroutines that were told to stop get the chance to finish. Not a preemption candidate.
//
//go:norace
func Drain() {
	if !Managed() {
		return
	}
	Sched(KYield, &drainWait{cur}, "drain")
}

// FireNextTimers fires, from the calling managed thread, every armed timed event that carries the earliest
// deadline (the virtual clock jumps to it). Harness "environment" threads use it so that a timer tick is an ordinary
// thread step whose position among the other threads' steps is explored like any other.
//
//go:norace
func FireNextTimers() int {
	if !Managed() {
		return 0
	}
	Sched(KYield, nil, "fire-timers")
	minDL := int64(-1)
	for _, e := range actE {
		if e.armed && e.timed && (minDL < 0 || e.deadline < minDL) {
			minDL = e.deadline
		}
	}
	if minDL < 0 {
		return 0
	}
	n := 0
	for _, e := range append([]*Event(nil), actE...) {
		if e.armed && e.timed && e.deadline == minDL {
			fireEvent(e)
			n++
		}
	}
	return n
}

// Quiesce tells the scheduler that the explored part of the execution is over (all client threads have been
// joined): what follows (shutdown, restart, final reads) runs with the canonical choice at every decision and adds no
// choice points.
//
//go:norace
func Quiesce() { noBranch = true }
