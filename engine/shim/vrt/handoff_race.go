//go:build race

package vrt

import "runtime"

// Under the race detector the hand-off must not create happens-before edges between managed threads: parked
// goroutines spin on a plain word.
type parker struct{}

func newParker() parker { return parker{} }

//go:norace
func (p *parker) park() { runtime.Gosched() }

//go:norace
func (p *parker) unpark() {}

var ctlParker parker
