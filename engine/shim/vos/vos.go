// Package vos mirrors the part of package os hydraide's storage code uses. In pass-through mode (default)
// it is the real file system; in mem mode it is an in-memory file system that logs every mutating operation
// (for crash images) and consults a fault hook before each one (for fault injection).
package vos

import (
	"errors"
	"io"
	"io/fs"
	"os"
	"path/filepath"
	"sort"
	"strings"
	"syscall"
	"time"
)

// ---------- operation log ----------

type OpKind uint8

const (
	OpCreate    OpKind = iota + 1 // new empty file at Path with inode ID
	OpWrite                       // Data at Off into inode ID
	OpTruncate                    // inode ID to Size
	OpSync                        // fsync of inode ID
	OpRename                      // Path -> Path2
	OpRemove                      // Path
	OpMkdir                       // Path (and parents)
	OpRemoveAll                   // Path subtree
)

func (k OpKind) String() string {
	return [...]string{"?", "create", "write", "truncate", "sync", "rename", "remove", "mkdir", "removeall"}[k]
}

type Op struct {
	Kind  OpKind
	ID    int
	Path  string
	Path2 string
	Off   int64
	Size  int64
	Data  []byte
}

// State is a complete file-system image.
type State struct {
	Files map[string]int // path -> inode
	Dirs  map[string]bool
	Nodes map[int][]byte
	Next  int
}

func NewState() *State {
	return &State{Files: map[string]int{}, Dirs: map[string]bool{"/": true}, Nodes: map[int][]byte{}, Next: 1}
}

func (s *State) Clone() *State {
	c := &State{Files: make(map[string]int, len(s.Files)), Dirs: make(map[string]bool, len(s.Dirs)), Nodes: make(map[int][]byte, len(s.Nodes)), Next: s.Next}
	for k, v := range s.Files {
		c.Files[k] = v
	}
	for k, v := range s.Dirs {
		c.Dirs[k] = v
	}
	for k, v := range s.Nodes {
		c.Nodes[k] = append([]byte(nil), v...)
	}
	return c
}

// Apply applies op to the state; for a write only the first nbytes bytes (nbytes<0 = all): a torn write.
func (s *State) Apply(op Op, nbytes int) {
	switch op.Kind {
	case OpCreate:
		s.Files[op.Path] = op.ID
		s.Nodes[op.ID] = nil
		if op.ID >= s.Next {
			s.Next = op.ID + 1
		}
	case OpWrite:
		d := op.Data
		if nbytes >= 0 && nbytes < len(d) {
			d = d[:nbytes]
		}
		if len(d) == 0 {
			return
		}
		b := s.Nodes[op.ID]
		end := int(op.Off) + len(d)
		if end > len(b) {
			nb := make([]byte, end)
			copy(nb, b)
			b = nb
		}
		copy(b[op.Off:], d)
		s.Nodes[op.ID] = b
	case OpTruncate:
		b := s.Nodes[op.ID]
		if int(op.Size) <= len(b) {
			s.Nodes[op.ID] = b[:op.Size]
		} else {
			nb := make([]byte, op.Size)
			copy(nb, b)
			s.Nodes[op.ID] = nb
		}
	case OpSync:
	case OpRename:
		if id, ok := s.Files[op.Path]; ok {
			delete(s.Files, op.Path)
			s.Files[op.Path2] = id
		} else if s.Dirs[op.Path] {
			pre := op.Path + "/"
			for p, id := range s.Files {
				if strings.HasPrefix(p, pre) {
					delete(s.Files, p)
					s.Files[op.Path2+"/"+p[len(pre):]] = id
				}
			}
			for p := range s.Dirs {
				if p == op.Path || strings.HasPrefix(p, pre) {
					delete(s.Dirs, p)
					s.Dirs[op.Path2+p[len(op.Path):]] = true
				}
			}
		}
	case OpRemove:
		delete(s.Files, op.Path)
		delete(s.Dirs, op.Path)
	case OpMkdir:
		p := op.Path
		for p != "/" && p != "." && p != "" {
			s.Dirs[p] = true
			p = filepath.Dir(p)
		}
	case OpRemoveAll:
		pre := op.Path + "/"
		for p := range s.Files {
			if p == op.Path || strings.HasPrefix(p, pre) {
				delete(s.Files, p)
			}
		}
		for p := range s.Dirs {
			if p == op.Path || strings.HasPrefix(p, pre) {
				delete(s.Dirs, p)
			}
		}
	}
}

// FileBytes returns the content of path in the state (nil,false if absent).
func (s *State) FileBytes(path string) ([]byte, bool) {
	id, ok := s.Files[filepath.Clean(path)]
	if !ok {
		return nil, false
	}
	return s.Nodes[id], true
}

// PutFile installs a file with the given content (no log entry): used by harnesses to plant files.
func (s *State) PutFile(path string, data []byte) {
	path = filepath.Clean(path)
	s.Apply(Op{Kind: OpMkdir, Path: filepath.Dir(path)}, -1)
	id := s.Next
	s.Next++
	s.Files[path] = id
	s.Nodes[id] = append([]byte(nil), data...)
}

// ---------- global mode ----------

var (
	mem   bool
	cur   *State
	oplog []Op
	// Fault is consulted before every mutating operation in mem mode (seq = index the op would get in the log).
	// It returns an error to inject (the op is not applied), or for writes short>=0 to apply only that many bytes
	// and report a short write.
	Fault func(seq int, op *Op) (err error, short int)
	// Reads counts read calls (deterministic step budget for termination oracles).
	Reads int64
	// ReadBytes counts bytes handed out by reads.
	ReadBytes int64
	// ReadFault is consulted before every read-side operation in mem mode (open of an existing file without
	// O_CREATE, read, readat, readfile, readdir, stat); seq numbers these operations from 0 since UseMem /
	// ResetReadSeq. A non-nil error is returned to the caller instead of performing the operation.
	ReadFault func(seq int, kind, path string) error
	rseq      int
)

// ResetReadSeq restarts the numbering of read-side operations.
func ResetReadSeq() { rseq = 0 }

// ReadSeq returns the number of read-side operations seen so far.
func ReadSeq() int { return rseq }

func rdo(kind, path string) error {
	n := rseq
	rseq++
	if ReadFault != nil {
		if err := ReadFault(n, kind, path); err != nil {
			return perr(kind, path, err)
		}
	}
	return nil
}

// UseMem switches to a fresh in-memory file system (and clears the log and the fault hook).
func UseMem() {
	mem = true
	cur = NewState()
	oplog = nil
	Fault = nil
	ReadFault = nil
	rseq = 0
	Reads, ReadBytes = 0, 0
}

// UseReal switches back to the real file system.
func UseReal() { mem = false; cur = nil; oplog = nil; Fault = nil }

func IsMem() bool { return mem }

// FS returns the live state (mem mode).
func FS() *State { return cur }

// SetFS replaces the live state (open handles of the previous state become detached) and clears the log.
func SetFS(s *State) { cur = s; oplog = nil }

func Log() []Op   { return oplog }
func ClearLog()   { oplog = nil }
func LogLen() int { return len(oplog) }

func perr(op, path string, e error) error { return &fs.PathError{Op: op, Path: path, Err: e} }

// do applies a mutating op through the fault hook and logs it.
func do(op Op) (int, error) {
	short := -1
	if Fault != nil {
		err, sh := Fault(len(oplog), &op)
		if err != nil && sh < 0 {
			return 0, err
		}
		if sh >= 0 && op.Kind == OpWrite && sh < len(op.Data) {
			short = sh
			op.Data = append([]byte(nil), op.Data[:sh]...)
			if err == nil {
				err = io.ErrShortWrite
			}
			oplog = append(oplog, op)
			cur.Apply(op, -1)
			return short, err
		}
	}
	if op.Kind == OpWrite {
		op.Data = append([]byte(nil), op.Data...)
	}
	oplog = append(oplog, op)
	cur.Apply(op, -1)
	return len(op.Data), nil
}

// ---------- File ----------

type File struct {
	real   *os.File
	path   string
	id     int
	st     *State
	pos    int64
	flag   int
	closed bool
}

var (
	Stdin  = &File{real: os.Stdin}
	Stdout = &File{real: os.Stdout}
	Stderr = &File{real: os.Stderr}
)

func clean(p string) string {
	if !filepath.IsAbs(p) {
		if wd, err := os.Getwd(); err == nil {
			p = filepath.Join(wd, p)
		}
	}
	return filepath.Clean(p)
}

func OpenFile(name string, flag int, perm os.FileMode) (*File, error) {
	if !mem {
		f, err := os.OpenFile(name, flag, perm)
		if err != nil {
			return nil, err
		}
		return &File{real: f, path: name}, nil
	}
	p := clean(name)
	if _, exists := cur.Files[p]; (exists || cur.Dirs[p]) && flag&(os.O_CREATE|os.O_WRONLY|os.O_RDWR) == 0 {
		if err := rdo("open", p); err != nil {
			return nil, err
		}
	}
	if cur.Dirs[p] {
		if flag&(os.O_WRONLY|os.O_RDWR) != 0 {
			return nil, perr("open", name, syscall.EISDIR)
		}
		return &File{path: p, id: -1, st: cur, flag: flag}, nil
	}
	id, ok := cur.Files[p]
	if ok && flag&os.O_CREATE != 0 && flag&os.O_EXCL != 0 {
		return nil, perr("open", name, syscall.EEXIST)
	}
	if !ok {
		if flag&os.O_CREATE == 0 {
			return nil, perr("open", name, syscall.ENOENT)
		}
		if !cur.Dirs[filepath.Dir(p)] {
			return nil, perr("open", name, syscall.ENOENT)
		}
		id = cur.Next
		cur.Next++
		if _, err := do(Op{Kind: OpCreate, Path: p, ID: id}); err != nil {
			return nil, perr("open", name, err)
		}
	} else if flag&os.O_TRUNC != 0 && flag&(os.O_WRONLY|os.O_RDWR) != 0 {
		if _, err := do(Op{Kind: OpTruncate, ID: id, Path: p, Size: 0}); err != nil {
			return nil, perr("open", name, err)
		}
	}
	return &File{path: p, id: id, st: cur, flag: flag}, nil
}

func Open(name string) (*File, error) { return OpenFile(name, os.O_RDONLY, 0) }
func Create(name string) (*File, error) {
	return OpenFile(name, os.O_RDWR|os.O_CREATE|os.O_TRUNC, 0666)
}

func (f *File) Name() string { return f.path }

func (f *File) live() error {
	if f == nil {
		return os.ErrInvalid
	}
	if f.closed {
		return perr("file", f.path, os.ErrClosed)
	}
	return nil
}

func (f *File) data() []byte { return f.st.Nodes[f.id] }

func (f *File) Read(b []byte) (int, error) {
	if f.real != nil {
		return f.real.Read(b)
	}
	if err := f.live(); err != nil {
		return 0, err
	}
	if f.flag&os.O_WRONLY != 0 {
		return 0, perr("read", f.path, syscall.EBADF)
	}
	if err := rdo("read", f.path); err != nil {
		return 0, err
	}
	Reads++
	d := f.data()
	if f.pos >= int64(len(d)) {
		if len(b) == 0 {
			return 0, nil
		}
		return 0, io.EOF
	}
	n := copy(b, d[f.pos:])
	f.pos += int64(n)
	ReadBytes += int64(n)
	return n, nil
}

func (f *File) ReadAt(b []byte, off int64) (int, error) {
	if f.real != nil {
		return f.real.ReadAt(b, off)
	}
	if err := f.live(); err != nil {
		return 0, err
	}
	if err := rdo("readat", f.path); err != nil {
		return 0, err
	}
	Reads++
	d := f.data()
	if off >= int64(len(d)) {
		return 0, io.EOF
	}
	n := copy(b, d[off:])
	ReadBytes += int64(n)
	if n < len(b) {
		return n, io.EOF
	}
	return n, nil
}

func (f *File) Write(b []byte) (int, error) {
	if f.real != nil {
		return f.real.Write(b)
	}
	if err := f.live(); err != nil {
		return 0, err
	}
	if f.flag&(os.O_WRONLY|os.O_RDWR) == 0 {
		return 0, perr("write", f.path, syscall.EBADF)
	}
	if f.st != cur {
		return 0, perr("write", f.path, syscall.EIO) // handle from a replaced file-system image
	}
	if f.flag&os.O_APPEND != 0 {
		f.pos = int64(len(f.data()))
	}
	n, err := do(Op{Kind: OpWrite, ID: f.id, Path: f.path, Off: f.pos, Data: b})
	f.pos += int64(n)
	if err != nil {
		return n, perr("write", f.path, err)
	}
	return n, nil
}

func (f *File) WriteAt(b []byte, off int64) (int, error) {
	if f.real != nil {
		return f.real.WriteAt(b, off)
	}
	if err := f.live(); err != nil {
		return 0, err
	}
	if f.st != cur {
		return 0, perr("write", f.path, syscall.EIO)
	}
	n, err := do(Op{Kind: OpWrite, ID: f.id, Path: f.path, Off: off, Data: b})
	if err != nil {
		return n, perr("write", f.path, err)
	}
	return n, nil
}

func (f *File) WriteString(s string) (int, error) { return f.Write([]byte(s)) }

func (f *File) Seek(off int64, whence int) (int64, error) {
	if f.real != nil {
		return f.real.Seek(off, whence)
	}
	if err := f.live(); err != nil {
		return 0, err
	}
	var np int64
	switch whence {
	case io.SeekStart:
		np = off
	case io.SeekCurrent:
		np = f.pos + off
	case io.SeekEnd:
		np = int64(len(f.data())) + off
	default:
		return 0, perr("seek", f.path, syscall.EINVAL)
	}
	if np < 0 {
		return 0, perr("seek", f.path, syscall.EINVAL)
	}
	f.pos = np
	return np, nil
}

func (f *File) Sync() error {
	if f.real != nil {
		return f.real.Sync()
	}
	if err := f.live(); err != nil {
		return err
	}
	if f.st != cur {
		return perr("sync", f.path, syscall.EIO)
	}
	if _, err := do(Op{Kind: OpSync, ID: f.id, Path: f.path}); err != nil {
		return perr("sync", f.path, err)
	}
	return nil
}

func (f *File) Truncate(size int64) error {
	if f.real != nil {
		return f.real.Truncate(size)
	}
	if err := f.live(); err != nil {
		return err
	}
	if f.st != cur {
		return perr("truncate", f.path, syscall.EIO)
	}
	if _, err := do(Op{Kind: OpTruncate, ID: f.id, Path: f.path, Size: size}); err != nil {
		return perr("truncate", f.path, err)
	}
	return nil
}

func (f *File) Close() error {
	if f.real != nil {
		return f.real.Close()
	}
	if f == nil {
		return os.ErrInvalid
	}
	if f.closed {
		return perr("close", f.path, os.ErrClosed)
	}
	f.closed = true
	return nil
}

func (f *File) Stat() (os.FileInfo, error) {
	if f.real != nil {
		return f.real.Stat()
	}
	if err := f.live(); err != nil {
		return nil, err
	}
	if f.id < 0 {
		return &info{name: filepath.Base(f.path), dir: true}, nil
	}
	return &info{name: filepath.Base(f.path), size: int64(len(f.data()))}, nil
}

func (f *File) Fd() uintptr {
	if f.real != nil {
		return f.real.Fd()
	}
	return ^uintptr(0)
}

func (f *File) Chmod(m os.FileMode) error {
	if f.real != nil {
		return f.real.Chmod(m)
	}
	return nil
}

func (f *File) ReadDir(n int) ([]os.DirEntry, error) {
	if f.real != nil {
		return f.real.ReadDir(n)
	}
	return ReadDir(f.path)
}

func (f *File) Readdirnames(n int) ([]string, error) {
	if f.real != nil {
		return f.real.Readdirnames(n)
	}
	es, err := ReadDir(f.path)
	var out []string
	for _, e := range es {
		out = append(out, e.Name())
	}
	return out, err
}

func (f *File) Readdir(n int) ([]os.FileInfo, error) {
	if f.real != nil {
		return f.real.Readdir(n)
	}
	es, err := ReadDir(f.path)
	var out []os.FileInfo
	for _, e := range es {
		i, _ := e.Info()
		out = append(out, i)
	}
	return out, err
}

type info struct {
	name string
	size int64
	dir  bool
}

func (i *info) Name() string { return i.name }
func (i *info) Size() int64  { return i.size }
func (i *info) Mode() fs.FileMode {
	if i.dir {
		return fs.ModeDir | 0755
	}
	return 0644
}
func (i *info) ModTime() time.Time { return time.Unix(1767225600, 0).UTC() }
func (i *info) IsDir() bool        { return i.dir }
func (i *info) Sys() any           { return nil }

// ---------- package-level functions ----------

func Stat(name string) (os.FileInfo, error) {
	if !mem {
		return os.Stat(name)
	}
	p := clean(name)
	if _, ok := cur.Files[p]; ok || cur.Dirs[p] {
		if err := rdo("stat", p); err != nil {
			return nil, err
		}
	}
	if cur.Dirs[p] {
		return &info{name: filepath.Base(p), dir: true}, nil
	}
	if id, ok := cur.Files[p]; ok {
		return &info{name: filepath.Base(p), size: int64(len(cur.Nodes[id]))}, nil
	}
	return nil, perr("stat", name, syscall.ENOENT)
}

func Lstat(name string) (os.FileInfo, error) {
	if !mem {
		return os.Lstat(name)
	}
	return Stat(name)
}

func Remove(name string) error {
	if !mem {
		return os.Remove(name)
	}
	p := clean(name)
	if cur.Dirs[p] {
		pre := p + "/"
		for q := range cur.Files {
			if strings.HasPrefix(q, pre) {
				return perr("remove", name, syscall.ENOTEMPTY)
			}
		}
		for q := range cur.Dirs {
			if strings.HasPrefix(q, pre) {
				return perr("remove", name, syscall.ENOTEMPTY)
			}
		}
	} else if _, ok := cur.Files[p]; !ok {
		return perr("remove", name, syscall.ENOENT)
	}
	if _, err := do(Op{Kind: OpRemove, Path: p}); err != nil {
		return perr("remove", name, err)
	}
	return nil
}

func RemoveAll(name string) error {
	if !mem {
		return os.RemoveAll(name)
	}
	p := clean(name)
	if _, err := do(Op{Kind: OpRemoveAll, Path: p}); err != nil {
		return perr("removeall", name, err)
	}
	return nil
}

func Rename(oldp, newp string) error {
	if !mem {
		return os.Rename(oldp, newp)
	}
	o, n := clean(oldp), clean(newp)
	_, isFile := cur.Files[o]
	if !isFile && !cur.Dirs[o] {
		return &os.LinkError{Op: "rename", Old: oldp, New: newp, Err: syscall.ENOENT}
	}
	if !cur.Dirs[filepath.Dir(n)] {
		return &os.LinkError{Op: "rename", Old: oldp, New: newp, Err: syscall.ENOENT}
	}
	if _, err := do(Op{Kind: OpRename, Path: o, Path2: n}); err != nil {
		return &os.LinkError{Op: "rename", Old: oldp, New: newp, Err: err}
	}
	return nil
}

func Mkdir(name string, perm os.FileMode) error {
	if !mem {
		return os.Mkdir(name, perm)
	}
	p := clean(name)
	if cur.Dirs[p] {
		return perr("mkdir", name, syscall.EEXIST)
	}
	if _, ok := cur.Files[p]; ok {
		return perr("mkdir", name, syscall.EEXIST)
	}
	if !cur.Dirs[filepath.Dir(p)] {
		return perr("mkdir", name, syscall.ENOENT)
	}
	if _, err := do(Op{Kind: OpMkdir, Path: p}); err != nil {
		return perr("mkdir", name, err)
	}
	return nil
}

func MkdirAll(name string, perm os.FileMode) error {
	if !mem {
		return os.MkdirAll(name, perm)
	}
	p := clean(name)
	if cur.Dirs[p] {
		return nil
	}
	for q := p; q != "/"; q = filepath.Dir(q) {
		if _, ok := cur.Files[q]; ok {
			return perr("mkdir", name, syscall.ENOTDIR)
		}
	}
	if _, err := do(Op{Kind: OpMkdir, Path: p}); err != nil {
		return perr("mkdir", name, err)
	}
	return nil
}

type dirEntries []os.DirEntry

func ReadDir(name string) ([]os.DirEntry, error) {
	if !mem {
		return os.ReadDir(name)
	}
	p := clean(name)
	if !cur.Dirs[p] {
		if _, ok := cur.Files[p]; ok {
			return nil, perr("readdir", name, syscall.ENOTDIR)
		}
		return nil, perr("open", name, syscall.ENOENT)
	}
	if err := rdo("readdir", p); err != nil {
		return nil, err
	}
	var infos []*info
	for q, id := range cur.Files {
		if filepath.Dir(q) == p {
			infos = append(infos, &info{name: filepath.Base(q), size: int64(len(cur.Nodes[id]))})
		}
	}
	for q := range cur.Dirs {
		if q != p && filepath.Dir(q) == p {
			infos = append(infos, &info{name: filepath.Base(q), dir: true})
		}
	}
	sort.Slice(infos, func(i, j int) bool { return infos[i].name < infos[j].name })
	out := make([]os.DirEntry, len(infos))
	for i, in := range infos {
		out[i] = fs.FileInfoToDirEntry(in)
	}
	return out, nil
}

func ReadFile(name string) ([]byte, error) {
	if !mem {
		return os.ReadFile(name)
	}
	f, err := Open(name)
	if err != nil {
		return nil, err
	}
	defer f.Close()
	if f.id < 0 {
		return nil, perr("read", name, syscall.EISDIR)
	}
	if err := rdo("read", f.path); err != nil {
		return nil, err
	}
	Reads++
	d := f.data()
	ReadBytes += int64(len(d))
	return append([]byte(nil), d...), nil
}

func WriteFile(name string, data []byte, perm os.FileMode) error {
	if !mem {
		return os.WriteFile(name, data, perm)
	}
	f, err := OpenFile(name, os.O_WRONLY|os.O_CREATE|os.O_TRUNC, perm)
	if err != nil {
		return err
	}
	_, err = f.Write(data)
	if e := f.Close(); err == nil {
		err = e
	}
	return err
}

func Truncate(name string, size int64) error {
	if !mem {
		return os.Truncate(name, size)
	}
	f, err := OpenFile(name, os.O_WRONLY, 0)
	if err != nil {
		return err
	}
	defer f.Close()
	return f.Truncate(size)
}

func CreateTemp(dir, pattern string) (*File, error) {
	if !mem {
		f, err := os.CreateTemp(dir, pattern)
		if err != nil {
			return nil, err
		}
		return &File{real: f, path: f.Name()}, nil
	}
	if dir == "" {
		dir = "/tmp"
		MkdirAll(dir, 0755)
	}
	for i := 0; ; i++ {
		name := filepath.Join(dir, strings.Replace(pattern, "*", "", 1)+"."+itoa(i))
		f, err := OpenFile(name, os.O_RDWR|os.O_CREATE|os.O_EXCL, 0600)
		if err == nil {
			return f, nil
		}
		if !errors.Is(err, syscall.EEXIST) {
			return nil, err
		}
	}
}

func itoa(i int) string {
	if i == 0 {
		return "0"
	}
	var b []byte
	for i > 0 {
		b = append([]byte{byte('0' + i%10)}, b...)
		i /= 10
	}
	return string(b)
}

func MkdirTemp(dir, pattern string) (string, error) {
	if !mem {
		return os.MkdirTemp(dir, pattern)
	}
	if dir == "" {
		dir = "/tmp"
	}
	for i := 0; ; i++ {
		name := filepath.Join(dir, strings.Replace(pattern, "*", "", 1)+"."+itoa(i))
		if !cur.Dirs[name] {
			return name, MkdirAll(name, 0700)
		}
	}
}

func NewFile(fd uintptr, name string) *File { return &File{real: os.NewFile(fd, name), path: name} }

// Walk is filepath.Walk over this file system (used by the vfilepath shim).
func Walk(root string, fn filepath.WalkFunc) error {
	if !mem {
		return filepath.Walk(root, fn)
	}
	in, err := Lstat(root)
	if err != nil {
		err = fn(root, nil, err)
	} else {
		err = walk(root, in, fn)
	}
	if err == filepath.SkipDir || err == filepath.SkipAll {
		return nil
	}
	return err
}

func walk(path string, in os.FileInfo, fn filepath.WalkFunc) error {
	if !in.IsDir() {
		return fn(path, in, nil)
	}
	es, err := ReadDir(path)
	err1 := fn(path, in, err)
	if err != nil || err1 != nil {
		return err1
	}
	for _, e := range es {
		fi, _ := e.Info()
		p := filepath.Join(path, e.Name())
		if err := walk(p, fi, fn); err != nil {
			if !fi.IsDir() || err != filepath.SkipDir {
				return err
			}
		}
	}
	return nil
}

// WalkDir is filepath.WalkDir over this file system.
func WalkDir(root string, fn fs.WalkDirFunc) error {
	if !mem {
		return filepath.WalkDir(root, fn)
	}
	return Walk(root, func(p string, in os.FileInfo, err error) error {
		if in == nil {
			return fn(p, nil, err)
		}
		return fn(p, fs.FileInfoToDirEntry(in), err)
	})
}
