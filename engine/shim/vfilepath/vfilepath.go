// Package vfilepath mirrors path/filepath; Walk and WalkDir go through the vos file system.
package vfilepath

import (
	"io/fs"
	"path/filepath"

	"github.com/hydraide/hydraide/app/vshim/vos"
)

func Walk(root string, fn filepath.WalkFunc) error { return vos.Walk(root, fn) }
func WalkDir(root string, fn fs.WalkDirFunc) error { return vos.WalkDir(root, fn) }
