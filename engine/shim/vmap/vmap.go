// Package vmap owns map-iteration order: Order(m) iterates a map in canonical (sorted-key) order, or, at
// sites a harness activates, in an order chosen by the harness (enumerated permutations).
package vmap

import (
	"cmp"
	"fmt"
	"iter"
	"slices"
	"sort"
)

// Perm, when non-nil, is consulted with the site name and the number of keys; it returns a permutation of
// 0..n-1 applied to the canonical order (nil = canonical).
var Perm func(site string, n int) []int

func sortedKeys[K comparable, V any](m map[K]V) []K {
	ks := make([]K, 0, len(m))
	for k := range m {
		ks = append(ks, k)
	}
	if len(ks) < 2 {
		return ks
	}
	switch any(ks[0]).(type) {
	case string:
		s := any(ks).([]string)
		sort.Strings(s)
	case int:
		slices.Sort(any(ks).([]int))
	case int32:
		slices.Sort(any(ks).([]int32))
	case int64:
		slices.Sort(any(ks).([]int64))
	case uint32:
		slices.Sort(any(ks).([]uint32))
	case uint64:
		slices.Sort(any(ks).([]uint64))
	case uint16:
		slices.Sort(any(ks).([]uint16))
	case uint8:
		slices.Sort(any(ks).([]uint8))
	default:
		strs := make(map[K]string, len(ks))
		for _, k := range ks {
			strs[k] = fmt.Sprintf("%v", k)
		}
		slices.SortFunc(ks, func(a, b K) int { return cmp.Compare(strs[a], strs[b]) })
	}
	return ks
}

// Order ranges over m in canonical order. An entry deleted before it is reached is skipped, as in Go.
func Order[M ~map[K]V, K comparable, V any](m M) iter.Seq2[K, V] {
	return OrderAt("", m)
}

// OrderAt is Order with a site name (activatable by a harness through Perm).
func OrderAt[M ~map[K]V, K comparable, V any](site string, m M) iter.Seq2[K, V] {
	return func(yield func(K, V) bool) {
		ks := sortedKeys(map[K]V(m))
		if Perm != nil && site != "" {
			if p := Perm(site, len(ks)); p != nil {
				ks2 := make([]K, len(ks))
				for i, j := range p {
					ks2[i] = ks[j]
				}
				ks = ks2
			}
		}
		for _, k := range ks {
			v, ok := m[k]
			if !ok {
				continue
			}
			if !yield(k, v) {
				return
			}
		}
	}
}
