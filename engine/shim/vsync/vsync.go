// Package vsync mirrors the part of package sync hydraide uses. Outside a managed execution every
// operation is the real one; inside, a scheduling point precedes it and blocking is decided by the scheduler.
package vsync

import (
	"fmt"
	"sort"
	"sync"
	"sync/atomic"

	"github.com/hydraide/hydraide/app/vshim/vrt"
)

type Mutex struct {
	real sync.Mutex
	held bool
}

//go:norace
func (m *Mutex) VrtReady(int) bool { return !m.held }

//go:norace
func (m *Mutex) pre() {
	vrt.Sched(vrt.KLock, m, "Mutex.Lock")
	m.held = true
}

//go:norace
func (m *Mutex) post() { m.held = false }

func (m *Mutex) Lock() {
	if vrt.Managed() {
		m.pre()
	}
	m.real.Lock()
}

func (m *Mutex) TryLock() bool {
	if vrt.Managed() {
		vrt.Sched(vrt.KYield, nil, "Mutex.TryLock")
	}
	ok := m.real.TryLock()
	if ok && vrt.Managed() {
		m.setHeld()
	}
	return ok
}

//go:norace
func (m *Mutex) setHeld() { m.held = true }

func (m *Mutex) Unlock() {
	m.post()
	m.real.Unlock()
}

type RWMutex struct {
	real    sync.RWMutex
	w       bool
	readers int
}

//go:norace
func (m *RWMutex) VrtReady(kind int) bool {
	if kind == vrt.KLock {
		return !m.w && m.readers == 0
	}
	return !m.w
}

//go:norace
func (m *RWMutex) preW() {
	vrt.Sched(vrt.KLock, m, "RWMutex.Lock")
	m.w = true
}

//go:norace
func (m *RWMutex) postW() { m.w = false }

//go:norace
func (m *RWMutex) preR() {
	vrt.Sched(vrt.KRLock, m, "RWMutex.RLock")
	m.readers++
}

//go:norace
func (m *RWMutex) postR() {
	if m.readers > 0 {
		m.readers--
	}
}

func (m *RWMutex) Lock() {
	if vrt.Managed() {
		m.preW()
	}
	m.real.Lock()
}

func (m *RWMutex) Unlock() {
	m.postW()
	m.real.Unlock()
}

func (m *RWMutex) RLock() {
	if vrt.Managed() {
		m.preR()
	}
	m.real.RLock()
}

func (m *RWMutex) RUnlock() {
	m.postR()
	m.real.RUnlock()
}

func (m *RWMutex) RLocker() sync.Locker { return (*rlocker)(m) }

type rlocker RWMutex

func (r *rlocker) Lock()   { (*RWMutex)(r).RLock() }
func (r *rlocker) Unlock() { (*RWMutex)(r).RUnlock() }

// ---- Cond ----

type waiter struct{ sig bool }

//go:norace
func (w *waiter) VrtReady(int) bool { return w.sig }

type Cond struct {
	L       sync.Locker
	real    *sync.Cond
	waiters []*waiter
	hb      int32
}

func NewCond(l sync.Locker) *Cond { return &Cond{L: l, real: sync.NewCond(l)} }

//go:norace
func (c *Cond) enqueue() *waiter {
	// the point between the caller's predicate check and the enqueue: lost wake-ups live here
	vrt.Sched(vrt.KYield, nil, "Cond.Wait.enter")
	w := &waiter{}
	c.waiters = append(c.waiters, w)
	return w
}

//go:norace
func (c *Cond) wake(all bool) {
	vrt.Sched(vrt.KYield, nil, "Cond.Signal")
	if all {
		for _, w := range c.waiters {
			w.sig = true
		}
		c.waiters = nil
	} else if len(c.waiters) > 0 {
		c.waiters[0].sig = true
		c.waiters = c.waiters[1:]
	}
}

func (c *Cond) relock() { c.L.Lock() }

func (c *Cond) Wait() {
	if !vrt.Managed() {
		c.real.Wait()
		return
	}
	w := c.enqueue()
	c.L.Unlock()
	vrt.SchedStale(vrt.KCondWake, w, "Cond.Wait", c.relock)
	atomic.LoadInt32(&c.hb) // acquire edge paired with the waker's release
	c.L.Lock()
}

func (c *Cond) Broadcast() {
	if !vrt.Managed() {
		c.real.Broadcast()
		return
	}
	c.wake(true)
	atomic.AddInt32(&c.hb, 1)
}

func (c *Cond) Signal() {
	if !vrt.Managed() {
		c.real.Signal()
		return
	}
	c.wake(false)
	atomic.AddInt32(&c.hb, 1)
}

// ---- WaitGroup ----

type WaitGroup struct {
	real sync.WaitGroup
	n    int
}

//go:norace
func (wg *WaitGroup) VrtReady(int) bool { return wg.n <= 0 }

//go:norace
func (wg *WaitGroup) add(d int) { wg.n += d }

func (wg *WaitGroup) Add(delta int) {
	if vrt.Managed() {
		vrt.Sched(vrt.KYield, nil, "WaitGroup.Add")
	}
	wg.add(delta)
	wg.real.Add(delta)
}

func (wg *WaitGroup) Done() { wg.Add(-1) }

func (wg *WaitGroup) Go(f func()) {
	wg.Add(1)
	vrt.Go0(func() {
		defer wg.Done()
		f()
	})
}

func (wg *WaitGroup) Wait() {
	if vrt.Managed() {
		vrt.Sched(vrt.KWGWait, wg, "WaitGroup.Wait")
	}
	wg.real.Wait()
}

// ---- Once ----

type Once struct {
	m    Mutex
	done atomic.Bool
}

func (o *Once) Do(f func()) {
	if o.done.Load() {
		return
	}
	o.m.Lock()
	defer o.m.Unlock()
	if !o.done.Load() {
		defer o.done.Store(true)
		f()
	}
}

// ---- Map: the real sync.Map with a deterministic Range order inside managed executions ----

type Map struct{ real sync.Map }

func pt(l string) {
	if vrt.Managed() {
		vrt.Sched(vrt.KYield, nil, l)
	}
}

func (m *Map) Load(k any) (any, bool) { pt("Map.Load"); return m.real.Load(k) }
func (m *Map) Store(k, v any)         { pt("Map.Store"); m.real.Store(k, v) }
func (m *Map) Delete(k any)           { pt("Map.Delete"); m.real.Delete(k) }
func (m *Map) Clear()                 { pt("Map.Clear"); m.real.Clear() }
func (m *Map) LoadOrStore(k, v any) (any, bool) {
	pt("Map.LoadOrStore")
	return m.real.LoadOrStore(k, v)
}
func (m *Map) LoadAndDelete(k any) (any, bool) {
	pt("Map.LoadAndDelete")
	return m.real.LoadAndDelete(k)
}
func (m *Map) Swap(k, v any) (any, bool) { pt("Map.Swap"); return m.real.Swap(k, v) }
func (m *Map) CompareAndSwap(k, o, n any) bool {
	pt("Map.CompareAndSwap")
	return m.real.CompareAndSwap(k, o, n)
}
func (m *Map) CompareAndDelete(k, o any) bool {
	pt("Map.CompareAndDelete")
	return m.real.CompareAndDelete(k, o)
}

// RawRange iterates without a scheduling point (observation hooks only; order is the real map's).
//
//go:norace
func (m *Map) RawRange(f func(k, v any) bool) { m.real.Range(f) }

func (m *Map) Range(f func(k, v any) bool) {
	if !vrt.Managed() {
		m.real.Range(f)
		return
	}
	pt("Map.Range")
	type kv struct {
		k, v any
		s    string
	}
	var all []kv
	m.real.Range(func(k, v any) bool {
		all = append(all, kv{k, v, fmt.Sprint(k)})
		return true
	})
	sort.Slice(all, func(i, j int) bool { return all[i].s < all[j].s })
	for _, e := range all {
		if cur, ok := m.real.Load(e.k); ok {
			if !f(e.k, cur) {
				return
			}
		}
	}
}

func OnceFunc(f func()) func()                           { return sync.OnceFunc(f) }
func OnceValue[T any](f func() T) func() T               { return sync.OnceValue(f) }
func OnceValues[A, B any](f func() (A, B)) func() (A, B) { return sync.OnceValues(f) }
