// Package vcontext mirrors package context; inside managed executions deadlines are virtual timers and a
// cancellation is a scheduling point.
package vcontext

import (
	"context"
	"time"

	"github.com/hydraide/hydraide/app/vshim/vrt"
)

type canceler struct {
	real context.CancelFunc
	ev   *vrt.Event
}

func (c *canceler) cancel() {
	if vrt.Managed() {
		vrt.Sched(vrt.KYield, nil, "context.cancel")
	}
	if c.ev != nil {
		c.ev.Stop()
	}
	c.real()
}

func WithCancel(parent context.Context) (context.Context, context.CancelFunc) {
	ctx, cancel := context.WithCancel(parent)
	if !vrt.Managed() {
		return ctx, cancel
	}
	c := &canceler{real: cancel}
	return ctx, c.cancel
}

type deadlineCtx struct {
	context.Context
	dl time.Time
	c  *canceler
	ex bool
}

func (d *deadlineCtx) Deadline() (time.Time, bool) { return d.dl, true }
func (d *deadlineCtx) Err() error {
	if d.ex {
		return context.DeadlineExceeded
	}
	return d.Context.Err()
}

//go:norace
func (d *deadlineCtx) expire() {
	d.ex = true
	d.c.real()
}

func WithDeadline(parent context.Context, dl time.Time) (context.Context, context.CancelFunc) {
	if !vrt.Managed() {
		return context.WithDeadline(parent, dl)
	}
	return withTimeout(parent, dl.Sub(time.Unix(0, vrt.NowNS())))
}

func WithTimeout(parent context.Context, d time.Duration) (context.Context, context.CancelFunc) {
	if !vrt.Managed() {
		return context.WithTimeout(parent, d)
	}
	return withTimeout(parent, d)
}

func withTimeout(parent context.Context, d time.Duration) (context.Context, context.CancelFunc) {
	ctx, cancel := context.WithCancel(parent)
	c := &canceler{real: cancel}
	dc := &deadlineCtx{Context: ctx, dl: time.Unix(0, vrt.NowNS()).Add(d).UTC(), c: c}
	if d < 0 {
		d = 0
	}
	c.ev = vrt.NewEvent("ctx-deadline", true, int64(d), 0, dc.expire)
	return dc, c.cancel
}
