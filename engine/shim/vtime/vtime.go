// Package vtime mirrors package time with a virtual clock and scheduler-controlled timers inside managed
// executions; outside it is the real package time.
package vtime

import (
	"time"

	"github.com/hydraide/hydraide/app/vshim/vrt"
)

func Now() time.Time {
	if vrt.Managed() || vrt.ClockVirtual() {
		return time.Unix(0, vrt.NowNS()).UTC()
	}
	return time.Now()
}

func Since(t time.Time) time.Duration { return Now().Sub(t) }
func Until(t time.Time) time.Duration { return t.Sub(Now()) }

type sleepWait struct{ woke bool }

//go:norace
func (s *sleepWait) VrtReady(int) bool { return s.woke }

//go:norace
func (s *sleepWait) wake() { s.woke = true }

func Sleep(d time.Duration) {
	if !vrt.Managed() {
		time.Sleep(d)
		return
	}
	w := &sleepWait{}
	vrt.NewEvent("sleep", true, int64(d), 0, w.wake)
	vrt.Sched(vrt.KSleep, w, "time.Sleep")
}

type Timer struct {
	C    <-chan time.Time
	c    chan time.Time
	real *time.Timer
	ev   *vrt.Event
	f    func()
}

func (t *Timer) fire() {
	if t.f != nil {
		vrt.SpawnFromEvent("AfterFunc", t.f)
		return
	}
	select {
	case t.c <- time.Unix(0, vrt.NowNS()).UTC():
	default:
	}
}

func NewTimer(d time.Duration) *Timer {
	if !vrt.Managed() {
		r := time.NewTimer(d)
		return &Timer{C: r.C, real: r}
	}
	t := &Timer{c: make(chan time.Time, 1)}
	t.C = t.c
	t.ev = vrt.NewEvent("timer", true, int64(d), 0, t.fire)
	return t
}

func AfterFunc(d time.Duration, f func()) *Timer {
	if !vrt.Managed() {
		return &Timer{real: time.AfterFunc(d, f)}
	}
	t := &Timer{f: f}
	t.ev = vrt.NewEvent("afterfunc", true, int64(d), 0, t.fire)
	return t
}

func After(d time.Duration) <-chan time.Time { return NewTimer(d).C }

func (t *Timer) Stop() bool {
	if t.real != nil {
		return t.real.Stop()
	}
	if vrt.Managed() {
		vrt.Sched(vrt.KYield, nil, "Timer.Stop")
	}
	return t.ev.Stop()
}

func (t *Timer) Reset(d time.Duration) bool {
	if t.real != nil {
		return t.real.Reset(d)
	}
	if vrt.Managed() {
		vrt.Sched(vrt.KYield, nil, "Timer.Reset")
	}
	return t.ev.Reset(int64(d))
}

type Ticker struct {
	C    <-chan time.Time
	c    chan time.Time
	real *time.Ticker
	ev   *vrt.Event
}

func (t *Ticker) fire() {
	select {
	case t.c <- time.Unix(0, vrt.NowNS()).UTC():
	default:
	}
}

func NewTicker(d time.Duration) *Ticker {
	if d <= 0 {
		panic("non-positive interval for NewTicker")
	}
	if !vrt.Managed() {
		r := time.NewTicker(d)
		return &Ticker{C: r.C, real: r}
	}
	t := &Ticker{c: make(chan time.Time, 1)}
	t.C = t.c
	t.ev = vrt.NewEvent("ticker", true, int64(d), int64(d), t.fire)
	return t
}

func Tick(d time.Duration) <-chan time.Time { return NewTicker(d).C }

func (t *Ticker) Stop() {
	if t.real != nil {
		t.real.Stop()
		return
	}
	t.ev.Stop()
}

func (t *Ticker) Reset(d time.Duration) {
	if t.real != nil {
		t.real.Reset(d)
		return
	}
	t.ev.Reset(int64(d))
}
