// Package vatomic mirrors sync/atomic with a scheduling point before every operation.
package vatomic

import (
	"sync/atomic"
	"unsafe"

	"github.com/hydraide/hydraide/app/vshim/vrt"
)

func pt(l string) {
	if vrt.Managed() {
		vrt.Sched(vrt.KAtomic, nil, l)
	}
}

func AddInt32(a *int32, d int32) int32     { pt("atomic.Add"); return atomic.AddInt32(a, d) }
func AddInt64(a *int64, d int64) int64     { pt("atomic.Add"); return atomic.AddInt64(a, d) }
func AddUint32(a *uint32, d uint32) uint32 { pt("atomic.Add"); return atomic.AddUint32(a, d) }
func AddUint64(a *uint64, d uint64) uint64 { pt("atomic.Add"); return atomic.AddUint64(a, d) }
func LoadInt32(a *int32) int32             { pt("atomic.Load"); return atomic.LoadInt32(a) }
func LoadInt64(a *int64) int64             { pt("atomic.Load"); return atomic.LoadInt64(a) }
func LoadUint32(a *uint32) uint32          { pt("atomic.Load"); return atomic.LoadUint32(a) }
func LoadUint64(a *uint64) uint64          { pt("atomic.Load"); return atomic.LoadUint64(a) }
func StoreInt32(a *int32, v int32)         { pt("atomic.Store"); atomic.StoreInt32(a, v) }
func StoreInt64(a *int64, v int64)         { pt("atomic.Store"); atomic.StoreInt64(a, v) }
func StoreUint32(a *uint32, v uint32)      { pt("atomic.Store"); atomic.StoreUint32(a, v) }
func StoreUint64(a *uint64, v uint64)      { pt("atomic.Store"); atomic.StoreUint64(a, v) }
func SwapInt32(a *int32, v int32) int32    { pt("atomic.Swap"); return atomic.SwapInt32(a, v) }
func SwapInt64(a *int64, v int64) int64    { pt("atomic.Swap"); return atomic.SwapInt64(a, v) }
func CompareAndSwapInt32(a *int32, o, n int32) bool {
	pt("atomic.CAS")
	return atomic.CompareAndSwapInt32(a, o, n)
}
func CompareAndSwapInt64(a *int64, o, n int64) bool {
	pt("atomic.CAS")
	return atomic.CompareAndSwapInt64(a, o, n)
}
func CompareAndSwapUint32(a *uint32, o, n uint32) bool {
	pt("atomic.CAS")
	return atomic.CompareAndSwapUint32(a, o, n)
}
func CompareAndSwapUint64(a *uint64, o, n uint64) bool {
	pt("atomic.CAS")
	return atomic.CompareAndSwapUint64(a, o, n)
}
func LoadPointer(a *unsafe.Pointer) unsafe.Pointer     { pt("atomic.Load"); return atomic.LoadPointer(a) }
func StorePointer(a *unsafe.Pointer, v unsafe.Pointer) { pt("atomic.Store"); atomic.StorePointer(a, v) }

type Int32 struct{ r atomic.Int32 }

func (x *Int32) Load() int32                    { pt("atomic.Load"); return x.r.Load() }
func (x *Int32) Store(v int32)                  { pt("atomic.Store"); x.r.Store(v) }
func (x *Int32) Add(d int32) int32              { pt("atomic.Add"); return x.r.Add(d) }
func (x *Int32) Swap(v int32) int32             { pt("atomic.Swap"); return x.r.Swap(v) }
func (x *Int32) CompareAndSwap(o, n int32) bool { pt("atomic.CAS"); return x.r.CompareAndSwap(o, n) }

type Int64 struct{ r atomic.Int64 }

func (x *Int64) Load() int64                    { pt("atomic.Load"); return x.r.Load() }
func (x *Int64) Store(v int64)                  { pt("atomic.Store"); x.r.Store(v) }
func (x *Int64) Add(d int64) int64              { pt("atomic.Add"); return x.r.Add(d) }
func (x *Int64) Swap(v int64) int64             { pt("atomic.Swap"); return x.r.Swap(v) }
func (x *Int64) CompareAndSwap(o, n int64) bool { pt("atomic.CAS"); return x.r.CompareAndSwap(o, n) }

type Uint32 struct{ r atomic.Uint32 }

func (x *Uint32) Load() uint32                    { pt("atomic.Load"); return x.r.Load() }
func (x *Uint32) Store(v uint32)                  { pt("atomic.Store"); x.r.Store(v) }
func (x *Uint32) Add(d uint32) uint32             { pt("atomic.Add"); return x.r.Add(d) }
func (x *Uint32) Swap(v uint32) uint32            { pt("atomic.Swap"); return x.r.Swap(v) }
func (x *Uint32) CompareAndSwap(o, n uint32) bool { pt("atomic.CAS"); return x.r.CompareAndSwap(o, n) }

type Uint64 struct{ r atomic.Uint64 }

func (x *Uint64) Load() uint64                    { pt("atomic.Load"); return x.r.Load() }
func (x *Uint64) Store(v uint64)                  { pt("atomic.Store"); x.r.Store(v) }
func (x *Uint64) Add(d uint64) uint64             { pt("atomic.Add"); return x.r.Add(d) }
func (x *Uint64) Swap(v uint64) uint64            { pt("atomic.Swap"); return x.r.Swap(v) }
func (x *Uint64) CompareAndSwap(o, n uint64) bool { pt("atomic.CAS"); return x.r.CompareAndSwap(o, n) }

type Bool struct{ r atomic.Bool }

func (x *Bool) Load() bool                    { pt("atomic.Load"); return x.r.Load() }
func (x *Bool) Store(v bool)                  { pt("atomic.Store"); x.r.Store(v) }
func (x *Bool) Swap(v bool) bool              { pt("atomic.Swap"); return x.r.Swap(v) }
func (x *Bool) CompareAndSwap(o, n bool) bool { pt("atomic.CAS"); return x.r.CompareAndSwap(o, n) }

type Value struct{ r atomic.Value }

func (x *Value) Load() any                    { pt("atomic.Load"); return x.r.Load() }
func (x *Value) Store(v any)                  { pt("atomic.Store"); x.r.Store(v) }
func (x *Value) Swap(v any) any               { pt("atomic.Swap"); return x.r.Swap(v) }
func (x *Value) CompareAndSwap(o, n any) bool { pt("atomic.CAS"); return x.r.CompareAndSwap(o, n) }

type Pointer[T any] struct{ r atomic.Pointer[T] }

func (x *Pointer[T]) Load() *T                    { pt("atomic.Load"); return x.r.Load() }
func (x *Pointer[T]) Store(v *T)                  { pt("atomic.Store"); x.r.Store(v) }
func (x *Pointer[T]) Swap(v *T) *T                { pt("atomic.Swap"); return x.r.Swap(v) }
func (x *Pointer[T]) CompareAndSwap(o, n *T) bool { pt("atomic.CAS"); return x.r.CompareAndSwap(o, n) }
