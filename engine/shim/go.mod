module github.com/hydraide/hydraide/app/vshim

go 1.26.2
