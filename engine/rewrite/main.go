// rewrite: source-to-source rewriter + overlay generator.
//
// For every non-test Go file of the configured hydraide packages (read from /repo's CURRENT working tree) it
// redirects the imports of sync, sync/atomic, time, context, os and path/filepath to the shim packages, turns
// go statements, select statements and channel operations into vrt calls, and turns every range over a map
// into a range over vmap.Order (canonical order). It then writes an overlay JSON that (a) replaces the
// rewritten files, (b) adds the shim packages as virtual packages under /repo/app/vshim, (c) injects export
// files into hydraide packages. /repo itself is never modified.
package main

import (
	"bytes"
	"encoding/json"
	"flag"
	"fmt"
	"go/ast"
	"go/build"
	"go/parser"
	"go/printer"
	"go/token"
	"go/types"
	"os"
	"os/exec"
	"path/filepath"
	"sort"
	"strconv"
	"strings"

	"golang.org/x/tools/go/packages"
)

const shimBase = "github.com/hydraide/hydraide/app/vshim/"

var importMap = map[string][2]string{ // import path -> (default local name, shim package)
	"sync":          {"sync", "vsync"},
	"sync/atomic":   {"atomic", "vatomic"},
	"time":          {"time", "vtime"},
	"context":       {"context", "vcontext"},
	"os":            {"os", "vos"},
	"path/filepath": {"filepath", "vfilepath"},
}

var defaultPatterns = []string{
	"./app/core/...", "./app/name", "./app/panichandler", "./app/server/gateway", "./app/server/explorer",
}

// mapSites names range-over-map sites that harnesses can activate: "pkgpath.Func" -> site name.
var mapSites = map[string]string{
	"github.com/hydraide/hydraide/app/core/settings.(*settings).GetBySwampName":                         "settings.GetBySwampName",
	"github.com/hydraide/hydraide/app/core/hydra/swamp/chronicler.(*chronicler).Load":                   "chroniclerV1.Load",
	"github.com/hydraide/hydraide/app/core/hydra/swamp/chronicler/v2/migrator.(*Migrator).loadV1Swamp": "migrator.loadV1Swamp",
}

// probes: function -> probe name; vrt.Probe(name, receiver-and-params...) is prepended to the body.
var probes = map[string]string{}

type rewriter struct {
	info     *types.Info
	pkgPath  string
	needVrt  bool
	needVmap bool
	counters map[string]int
	tmp      int
	curFunc  string
	unsup    []string
}

var total = map[string]int{}

func main() {
	repo := flag.String("repo", "/repo", "hydraide working tree")
	shimDir := flag.String("shim", "/verif/engine/shim", "shim sources")
	exportDir := flag.String("export", "/verif/engine/export", "export files to inject (mirrors repo layout)")
	out := flag.String("out", "/verif/.build/ov", "output directory")
	probeFile := flag.String("probes", "/verif/engine/probes.json", "probe configuration")
	as := flag.String("as", "", "development aid: read the sources from -repo (a scratch worktree at the same commit) but key the overlay as if they were at this path, so that the harness (which imports /repo) is built with the worktree's code while /repo stays untouched")
	flag.Parse()

	if b, err := os.ReadFile(*probeFile); err == nil {
		if err := json.Unmarshal(b, &probes); err != nil {
			fatal("probes: %v", err)
		}
	}
	tmpOut := *out + ".new"
	os.RemoveAll(tmpOut)
	must(os.MkdirAll(tmpOut, 0755))
	overlay := map[string]string{}

	cfg := &packages.Config{
		Mode: packages.NeedName | packages.NeedFiles | packages.NeedCompiledGoFiles | packages.NeedSyntax | packages.NeedTypes | packages.NeedTypesInfo | packages.NeedImports | packages.NeedDeps,
		Dir:  *repo,
		Env:  append(cleanEnv(), "GOFLAGS=", "GOWORK=", "GOPROXY=off"),
	}
	pkgs, err := packages.Load(cfg, defaultPatterns...)
	if err != nil {
		fatal("load: %v", err)
	}
	nerr := 0
	for _, p := range pkgs {
		for _, e := range p.Errors {
			fmt.Fprintln(os.Stderr, "load error:", e)
			nerr++
		}
	}
	if nerr > 0 {
		fatal("%d package load errors: the tree does not type-check", nerr)
	}
	sort.Slice(pkgs, func(i, j int) bool { return pkgs[i].PkgPath < pkgs[j].PkgPath })
	used := map[string]map[string]bool{} // shim pkg -> selector names used
	nfiles := 0
	var unsupported []string
	for _, p := range pkgs {
		if strings.Contains(p.PkgPath, "/vshim/") {
			continue
		}
		for i, f := range p.Syntax {
			path := p.CompiledGoFiles[i]
			if strings.HasSuffix(path, "_test.go") || !strings.HasPrefix(path, *repo+"/") {
				continue
			}
			r := &rewriter{info: p.TypesInfo, pkgPath: p.PkgPath, counters: map[string]int{}}
			src, changed, err := r.file(p.Fset, f, used)
			if err != nil {
				fatal("%s: %v", path, err)
			}
			for k, v := range r.counters {
				total[k] += v
			}
			unsupported = append(unsupported, r.unsup...)
			if !changed {
				continue
			}
			rel := strings.TrimPrefix(path, *repo+"/")
			dst := filepath.Join(tmpOut, "src", rel)
			must(os.MkdirAll(filepath.Dir(dst), 0755))
			must(os.WriteFile(dst, src, 0644))
			overlay[path] = filepath.Join(*out, "src", rel)
			nfiles++
		}
	}

	// shim packages: hand-written files + generated pass-through declarations
	goroot := strings.TrimSpace(runOut(*repo, "go", "env", "GOROOT"))
	shimOf := map[string]string{}
	for std, m := range importMap {
		shimOf[m[1]] = std
	}
	ents, err := os.ReadDir(*shimDir)
	must(err)
	for _, e := range ents {
		if !e.IsDir() {
			continue
		}
		name := e.Name()
		files, _ := filepath.Glob(filepath.Join(*shimDir, name, "*.go"))
		defined := map[string]bool{}
		for _, f := range files {
			if strings.HasSuffix(f, "_test.go") {
				continue
			}
			overlay[filepath.Join(*repo, "app/vshim", name, filepath.Base(f))] = f
			collectTopLevel(f, defined)
		}
		if std, ok := shimOf[name]; ok {
			gen := genShim(goroot, std, name, defined)
			dst := filepath.Join(tmpOut, "gen", name, "zz_gen.go")
			must(os.MkdirAll(filepath.Dir(dst), 0755))
			must(os.WriteFile(dst, gen, 0644))
			overlay[filepath.Join(*repo, "app/vshim", name, "zz_gen.go")] = filepath.Join(*out, "gen", name, "zz_gen.go")
		}
	}

	// export files: <export>/<repo-relative package dir>/<file>.go -> /repo/<dir>/zz_verif_<file>.go
	filepath.Walk(*exportDir, func(p string, fi os.FileInfo, err error) error {
		if err != nil || fi.IsDir() || !strings.HasSuffix(p, ".go") {
			return nil
		}
		rel, _ := filepath.Rel(*exportDir, p)
		overlay[filepath.Join(*repo, filepath.Dir(rel), "zz_verif_"+filepath.Base(rel))] = p
		return nil
	})

	if *as != "" {
		// files the worktree changed but the rewriter had no reason to touch, and files outside the rewritten
		// packages (the SDK module), must reach the build too
		changed := runOut(*repo, "git", "diff", "--name-only", "HEAD") + runOut(*repo, "git", "ls-files", "--others", "--exclude-standard")
		for _, rel := range strings.Fields(changed) {
			if !strings.HasSuffix(rel, ".go") || strings.HasSuffix(rel, "_test.go") {
				continue
			}
			src := filepath.Join(*repo, rel)
			if _, err := os.Stat(src); err != nil {
				fatal("-as: %s was removed in the worktree; removals are not supported", rel)
			}
			if _, ok := overlay[src]; !ok {
				overlay[src] = src
			}
		}
		re := map[string]string{}
		for k, v := range overlay {
			re[filepath.Join(*as, strings.TrimPrefix(k, *repo+"/"))] = v
		}
		overlay = re
	}
	b, _ := json.MarshalIndent(map[string]any{"Replace": overlay}, "", " ")
	must(os.WriteFile(filepath.Join(tmpOut, "overlay.json"), b, 0644))
	st, _ := json.MarshalIndent(map[string]any{"files_rewritten": nfiles, "rules": total, "unsupported": unsupported}, "", " ")
	must(os.WriteFile(filepath.Join(tmpOut, "stats.json"), st, 0644))
	os.RemoveAll(*out + ".old")
	os.Rename(*out, *out+".old")
	must(os.Rename(tmpOut, *out))
	os.RemoveAll(*out + ".old")
	fmt.Printf("rewrite: %d files, rules %v, unsupported %d\n", nfiles, total, len(unsupported))
}

func cleanEnv() []string {
	var e []string
	for _, kv := range os.Environ() {
		if strings.HasPrefix(kv, "GOFLAGS=") || strings.HasPrefix(kv, "GOWORK=") {
			continue
		}
		e = append(e, kv)
	}
	return e
}

func runOut(dir string, name string, args ...string) string {
	c := exec.Command(name, args...)
	c.Dir = dir
	c.Env = append(cleanEnv(), "GOFLAGS=", "GOWORK=")
	b, err := c.Output()
	if err != nil {
		fatal("%s %v: %v", name, args, err)
	}
	return string(b)
}

func must(err error) {
	if err != nil {
		fatal("%v", err)
	}
}

func fatal(f string, a ...any) {
	fmt.Fprintf(os.Stderr, "rewrite: "+f+"\n", a...)
	os.Exit(1)
}

func collectTopLevel(file string, into map[string]bool) {
	fs := token.NewFileSet()
	af, err := parser.ParseFile(fs, file, nil, 0)
	if err != nil {
		fatal("%s: %v", file, err)
	}
	for _, d := range af.Decls {
		switch x := d.(type) {
		case *ast.FuncDecl:
			if x.Recv == nil {
				into[x.Name.Name] = true
			}
		case *ast.GenDecl:
			for _, sp := range x.Specs {
				switch s := sp.(type) {
				case *ast.TypeSpec:
					into[s.Name.Name] = true
				case *ast.ValueSpec:
					for _, n := range s.Names {
						into[n.Name] = true
					}
				}
			}
		}
	}
}

// genShim emits forwarding declarations for every exported name of the std package that the shim does not define itself.
func genShim(goroot, std, shimName string, defined map[string]bool) []byte {
	ctx := build.Default
	ctx.GOROOT = goroot
	bp, err := ctx.ImportDir(filepath.Join(goroot, "src", std), 0)
	if err != nil {
		fatal("genshim %s: %v", std, err)
	}
	kind := map[string]string{}
	generic := map[string]bool{}
	fs := token.NewFileSet()
	for _, fn := range bp.GoFiles {
		af, err := parser.ParseFile(fs, filepath.Join(bp.Dir, fn), nil, 0)
		if err != nil {
			fatal("genshim %s: %v", fn, err)
		}
		for _, d := range af.Decls {
			switch x := d.(type) {
			case *ast.FuncDecl:
				if x.Recv == nil && x.Name.IsExported() {
					kind[x.Name.Name] = "func"
					if x.Type.TypeParams != nil {
						generic[x.Name.Name] = true
					}
				}
			case *ast.GenDecl:
				for _, sp := range x.Specs {
					switch s := sp.(type) {
					case *ast.TypeSpec:
						if s.Name.IsExported() {
							kind[s.Name.Name] = "type"
							if s.TypeParams != nil {
								generic[s.Name.Name] = true
							}
						}
					case *ast.ValueSpec:
						for _, n := range s.Names {
							if n.IsExported() {
								if x.Tok == token.CONST {
									kind[n.Name] = "const"
								} else {
									kind[n.Name] = "var"
								}
							}
						}
					}
				}
			}
		}
	}
	var names []string
	for n := range kind {
		if !defined[n] {
			names = append(names, n)
		}
	}
	sort.Strings(names)
	var b strings.Builder
	fmt.Fprintf(&b, "// Code generated by /verif/engine/rewrite (genshim); DO NOT EDIT.\n\npackage %s\n\nimport real %q\n\n", shimName, std)
	for _, n := range names {
		if generic[n] {
			fmt.Fprintf(&b, "// %s is generic and has no generated forwarder\n", n)
			continue
		}
		switch kind[n] {
		case "type":
			fmt.Fprintf(&b, "type %s = real.%s\n", n, n)
		case "const":
			fmt.Fprintf(&b, "const %s = real.%s\n", n, n)
		case "func", "var":
			fmt.Fprintf(&b, "var %s = real.%s\n", n, n)
		}
	}
	return []byte(b.String())
}

// ---------------- file rewriting ----------------

func (r *rewriter) file(fset *token.FileSet, f *ast.File, used map[string]map[string]bool) ([]byte, bool, error) {
	changed := false
	for _, imp := range f.Imports {
		p, _ := strconv.Unquote(imp.Path.Value)
		if m, ok := importMap[p]; ok {
			local := m[0]
			if imp.Name != nil {
				local = imp.Name.Name
			}
			if local == "_" || local == "." {
				continue
			}
			imp.Name = ast.NewIdent(local)
			imp.Path.Value = strconv.Quote(shimBase + m[1])
			imp.EndPos = 0
			changed = true
			r.counters["import:"+p]++
		}
	}
	for _, d := range f.Decls {
		fd, ok := d.(*ast.FuncDecl)
		if !ok || fd.Body == nil {
			// package-level var initialisers may contain func literals
			if gd, ok := d.(*ast.GenDecl); ok {
				for _, sp := range gd.Specs {
					if vs, ok := sp.(*ast.ValueSpec); ok {
						for i := range vs.Values {
							vs.Values[i] = r.expr(vs.Values[i])
						}
					}
				}
			}
			continue
		}
		r.curFunc = funcName(r.pkgPath, fd)
		r.block(fd.Body)
		if pn, ok := probes[r.curFunc]; ok {
			r.needVrt = true
			r.counters["probe"]++
			args := []ast.Expr{&ast.BasicLit{Kind: token.STRING, Value: strconv.Quote(pn)}}
			if fd.Recv != nil && len(fd.Recv.List) == 1 && len(fd.Recv.List[0].Names) == 1 && fd.Recv.List[0].Names[0].Name != "_" {
				args = append(args, ast.NewIdent(fd.Recv.List[0].Names[0].Name))
			}
			for _, fld := range fd.Type.Params.List {
				for _, n := range fld.Names {
					if n.Name != "_" {
						args = append(args, ast.NewIdent(n.Name))
					}
				}
			}
			fd.Body.List = append([]ast.Stmt{&ast.ExprStmt{X: call(sel("vrt", "Probe"), args...)}}, fd.Body.List...)
		}
	}
	if r.needVrt {
		changed = true
		addImport(f, "vrt", shimBase+"vrt")
	}
	if r.needVmap {
		changed = true
		addImport(f, "vmap", shimBase+"vmap")
	}
	if !changed {
		return nil, false, nil
	}
	// keep only comments before the package clause (build constraints) and compiler directives are not used
	// in the rewritten packages; synthesised nodes have no positions and go/printer would scatter comments.
	var keep []*ast.CommentGroup
	for _, cg := range f.Comments {
		if cg.End() < f.Package {
			keep = append(keep, cg)
		}
		for _, c := range cg.List {
			if strings.HasPrefix(c.Text, "//go:embed") || strings.HasPrefix(c.Text, "//go:linkname") || strings.HasPrefix(c.Text, "//export") {
				return nil, false, fmt.Errorf("directive %q would be lost by the rewrite", c.Text)
			}
		}
	}
	f.Comments = keep
	ast.Inspect(f, func(n ast.Node) bool {
		switch x := n.(type) {
		case *ast.FuncDecl:
			x.Doc = nil
		case *ast.GenDecl:
			x.Doc = nil
		case *ast.Field:
			x.Doc, x.Comment = nil, nil
		case *ast.TypeSpec:
			x.Doc, x.Comment = nil, nil
		case *ast.ValueSpec:
			x.Doc, x.Comment = nil, nil
		case *ast.ImportSpec:
			x.Doc, x.Comment = nil, nil
		}
		return true
	})
	var buf bytes.Buffer
	if err := (&printer.Config{Mode: printer.UseSpaces | printer.TabIndent, Tabwidth: 8}).Fprint(&buf, fset, f); err != nil {
		return nil, false, err
	}
	return buf.Bytes(), true, nil
}

func funcName(pkg string, fd *ast.FuncDecl) string {
	if fd.Recv == nil || len(fd.Recv.List) == 0 {
		return pkg + "." + fd.Name.Name
	}
	t := fd.Recv.List[0].Type
	star := ""
	if s, ok := t.(*ast.StarExpr); ok {
		star = "*"
		t = s.X
	}
	if ix, ok := t.(*ast.IndexExpr); ok {
		t = ix.X
	}
	name := "?"
	if id, ok := t.(*ast.Ident); ok {
		name = id.Name
	}
	if star != "" {
		return pkg + ".(*" + name + ")." + fd.Name.Name
	}
	return pkg + "." + name + "." + fd.Name.Name
}

func addImport(f *ast.File, name, path string) {
	spec := &ast.ImportSpec{Name: ast.NewIdent(name), Path: &ast.BasicLit{Kind: token.STRING, Value: strconv.Quote(path)}}
	for _, d := range f.Decls {
		if gd, ok := d.(*ast.GenDecl); ok && gd.Tok == token.IMPORT {
			gd.Specs = append(gd.Specs, spec)
			if !gd.Lparen.IsValid() {
				gd.Lparen = gd.Pos()
				gd.Rparen = gd.End()
			}
			f.Imports = append(f.Imports, spec)
			return
		}
	}
	gd := &ast.GenDecl{Tok: token.IMPORT, Specs: []ast.Spec{spec}}
	f.Decls = append([]ast.Decl{gd}, f.Decls...)
}

func sel(pkg, name string) ast.Expr { return &ast.SelectorExpr{X: ast.NewIdent(pkg), Sel: ast.NewIdent(name)} }
func call(fn ast.Expr, args ...ast.Expr) *ast.CallExpr {
	return &ast.CallExpr{Fun: fn, Args: args}
}
func strLit(s string) ast.Expr { return &ast.BasicLit{Kind: token.STRING, Value: strconv.Quote(s)} }

func (r *rewriter) block(b *ast.BlockStmt) {
	if b == nil {
		return
	}
	r.stmts(b.List)
}

func (r *rewriter) stmts(list []ast.Stmt) {
	for i, s := range list {
		list[i] = r.stmt(s)
	}
}

func (r *rewriter) isMap(e ast.Expr) bool {
	t := r.info.TypeOf(e)
	if t == nil {
		return false
	}
	_, ok := t.Underlying().(*types.Map)
	return ok
}

func (r *rewriter) isChan(e ast.Expr) bool {
	t := r.info.TypeOf(e)
	if t == nil {
		return false
	}
	_, ok := t.Underlying().(*types.Chan)
	return ok
}

func (r *rewriter) stmt(s ast.Stmt) ast.Stmt {
	switch n := s.(type) {
	case *ast.BlockStmt:
		r.block(n)
	case *ast.IfStmt:
		if n.Init != nil {
			n.Init = r.stmt(n.Init)
		}
		n.Cond = r.expr(n.Cond)
		r.block(n.Body)
		if n.Else != nil {
			n.Else = r.stmt(n.Else)
		}
	case *ast.ForStmt:
		if n.Init != nil {
			n.Init = r.stmt(n.Init)
		}
		if n.Cond != nil {
			n.Cond = r.expr(n.Cond)
		}
		if n.Post != nil {
			n.Post = r.stmt(n.Post)
		}
		r.block(n.Body)
	case *ast.RangeStmt:
		isMap, isChan := r.isMap(n.X), r.isChan(n.X)
		n.X = r.expr(n.X)
		r.block(n.Body)
		if isMap {
			r.needVmap = true
			r.counters["range-map"]++
			if site, ok := mapSites[r.curFunc]; ok {
				n.X = call(sel("vmap", "OrderAt"), strLit(site), n.X)
			} else {
				n.X = call(sel("vmap", "Order"), n.X)
			}
		} else if isChan {
			// for v := range ch { body }  =>  for { v, ok := vrt.Recv2(ch); if !ok { break }; body }
			r.needVrt = true
			r.counters["range-chan"]++
			r.tmp++
			ok := ast.NewIdent(fmt.Sprintf("__vok%d", r.tmp))
			var v ast.Expr = ast.NewIdent("_")
			tok := token.DEFINE
			if n.Key != nil {
				v = n.Key
				if n.Tok == token.ASSIGN {
					// v already declared: declare ok separately
					decl := &ast.DeclStmt{Decl: &ast.GenDecl{Tok: token.VAR, Specs: []ast.Spec{&ast.ValueSpec{Names: []*ast.Ident{ok}, Type: ast.NewIdent("bool")}}}}
					recv := &ast.AssignStmt{Lhs: []ast.Expr{v, ok}, Tok: token.ASSIGN, Rhs: []ast.Expr{call(sel("vrt", "Recv2"), n.X)}}
					brk := &ast.IfStmt{Cond: &ast.UnaryExpr{Op: token.NOT, X: ok}, Body: &ast.BlockStmt{List: []ast.Stmt{&ast.BranchStmt{Tok: token.BREAK}}}}
					body := append([]ast.Stmt{decl, recv, brk}, n.Body.List...)
					return &ast.ForStmt{Body: &ast.BlockStmt{List: body}}
				}
			}
			recv := &ast.AssignStmt{Lhs: []ast.Expr{v, ok}, Tok: tok, Rhs: []ast.Expr{call(sel("vrt", "Recv2"), n.X)}}
			brk := &ast.IfStmt{Cond: &ast.UnaryExpr{Op: token.NOT, X: ok}, Body: &ast.BlockStmt{List: []ast.Stmt{&ast.BranchStmt{Tok: token.BREAK}}}}
			body := append([]ast.Stmt{recv, brk}, n.Body.List...)
			return &ast.ForStmt{Body: &ast.BlockStmt{List: body}}
		}
	case *ast.SwitchStmt:
		if n.Init != nil {
			n.Init = r.stmt(n.Init)
		}
		if n.Tag != nil {
			n.Tag = r.expr(n.Tag)
		}
		for _, c := range n.Body.List {
			cc := c.(*ast.CaseClause)
			for i := range cc.List {
				cc.List[i] = r.expr(cc.List[i])
			}
			r.stmts(cc.Body)
		}
	case *ast.TypeSwitchStmt:
		if n.Init != nil {
			n.Init = r.stmt(n.Init)
		}
		n.Assign = r.stmt(n.Assign)
		for _, c := range n.Body.List {
			r.stmts(c.(*ast.CaseClause).Body)
		}
	case *ast.LabeledStmt:
		n.Stmt = r.stmt(n.Stmt)
	case *ast.ExprStmt:
		n.X = r.expr(n.X)
	case *ast.IncDecStmt:
		n.X = r.expr(n.X)
	case *ast.AssignStmt:
		if len(n.Lhs) == 2 && len(n.Rhs) == 1 {
			if u, ok := n.Rhs[0].(*ast.UnaryExpr); ok && u.Op == token.ARROW {
				r.needVrt = true
				r.counters["recv2"]++
				n.Rhs[0] = call(sel("vrt", "Recv2"), r.expr(u.X))
				for i := range n.Lhs {
					n.Lhs[i] = r.expr(n.Lhs[i])
				}
				return n
			}
		}
		for i := range n.Rhs {
			n.Rhs[i] = r.expr(n.Rhs[i])
		}
		for i := range n.Lhs {
			n.Lhs[i] = r.expr(n.Lhs[i])
		}
	case *ast.ReturnStmt:
		for i := range n.Results {
			n.Results[i] = r.expr(n.Results[i])
		}
	case *ast.DeferStmt:
		n.Call = r.expr(n.Call).(*ast.CallExpr)
	case *ast.DeclStmt:
		if gd, ok := n.Decl.(*ast.GenDecl); ok {
			for _, sp := range gd.Specs {
				if vs, ok := sp.(*ast.ValueSpec); ok {
					for i := range vs.Values {
						vs.Values[i] = r.expr(vs.Values[i])
					}
				}
			}
		}
	case *ast.SendStmt:
		r.needVrt = true
		r.counters["send"]++
		return &ast.ExprStmt{X: call(sel("vrt", "Send"), r.expr(n.Chan), r.expr(n.Value))}
	case *ast.GoStmt:
		r.needVrt = true
		r.counters["go"]++
		c := n.Call
		for i := range c.Args {
			c.Args[i] = r.expr(c.Args[i])
		}
		c.Fun = r.expr(c.Fun)
		if len(c.Args) == 0 {
			if _, isLit := c.Fun.(*ast.FuncLit); isLit {
				return &ast.ExprStmt{X: call(sel("vrt", "Go0"), c.Fun)}
			}
		}
		if len(c.Args) <= 3 && !c.Ellipsis.IsValid() && !r.isBuiltinOrConversion(c.Fun) && r.fixedArity(c.Fun, len(c.Args)) {
			args := append([]ast.Expr{c.Fun}, c.Args...)
			return &ast.ExprStmt{X: call(sel("vrt", fmt.Sprintf("Go%d", len(c.Args))), args...)}
		}
		// fallback: evaluate arguments now (as `go` does), call later
		var pre []ast.Stmt
		var tmps []ast.Expr
		for _, a := range c.Args {
			r.tmp++
			id := ast.NewIdent(fmt.Sprintf("__varg%d", r.tmp))
			pre = append(pre, &ast.AssignStmt{Lhs: []ast.Expr{id}, Tok: token.DEFINE, Rhs: []ast.Expr{a}})
			tmps = append(tmps, id)
		}
		inner := &ast.CallExpr{Fun: c.Fun, Args: tmps, Ellipsis: c.Ellipsis}
		lit := &ast.FuncLit{Type: &ast.FuncType{Params: &ast.FieldList{}}, Body: &ast.BlockStmt{List: []ast.Stmt{&ast.ExprStmt{X: inner}}}}
		pre = append(pre, &ast.ExprStmt{X: call(sel("vrt", "Go0"), lit)})
		return &ast.BlockStmt{List: pre}
	case *ast.SelectStmt:
		return r.selectStmt(n)
	case *ast.CaseClause:
		r.stmts(n.Body)
	}
	return s
}

func (r *rewriter) isBuiltinOrConversion(fun ast.Expr) bool {
	tv, ok := r.info.Types[fun]
	return ok && (tv.IsBuiltin() || tv.IsType())
}

// fixedArity: the callee is a non-variadic function with exactly n parameters (so GoN's generic signature fits)
func (r *rewriter) fixedArity(fun ast.Expr, n int) bool {
	t := r.info.TypeOf(fun)
	if t == nil {
		return false
	}
	sig, ok := t.Underlying().(*types.Signature)
	if !ok || sig.Variadic() || sig.Params().Len() != n || sig.Results().Len() != 0 {
		return false
	}
	return true
}

func (r *rewriter) expr(e ast.Expr) ast.Expr {
	switch n := e.(type) {
	case *ast.FuncLit:
		r.block(n.Body)
	case *ast.CallExpr:
		if id, ok := n.Fun.(*ast.Ident); ok && id.Name == "close" && len(n.Args) == 1 {
			if tv, ok := r.info.Types[n.Fun]; ok && tv.IsBuiltin() {
				r.needVrt = true
				r.counters["close"]++
				return call(sel("vrt", "Close"), r.expr(n.Args[0]))
			}
		}
		n.Fun = r.expr(n.Fun)
		for i := range n.Args {
			n.Args[i] = r.expr(n.Args[i])
		}
	case *ast.UnaryExpr:
		if n.Op == token.ARROW {
			r.needVrt = true
			r.counters["recv1"]++
			return call(sel("vrt", "Recv1"), r.expr(n.X))
		}
		n.X = r.expr(n.X)
	case *ast.BinaryExpr:
		n.X, n.Y = r.expr(n.X), r.expr(n.Y)
	case *ast.ParenExpr:
		n.X = r.expr(n.X)
	case *ast.SelectorExpr:
		n.X = r.expr(n.X)
	case *ast.IndexExpr:
		n.X, n.Index = r.expr(n.X), r.expr(n.Index)
	case *ast.StarExpr:
		n.X = r.expr(n.X)
	case *ast.TypeAssertExpr:
		n.X = r.expr(n.X)
	case *ast.CompositeLit:
		for i := range n.Elts {
			n.Elts[i] = r.expr(n.Elts[i])
		}
	case *ast.KeyValueExpr:
		n.Key, n.Value = r.expr(n.Key), r.expr(n.Value)
	case *ast.SliceExpr:
		n.X = r.expr(n.X)
		if n.Low != nil {
			n.Low = r.expr(n.Low)
		}
		if n.High != nil {
			n.High = r.expr(n.High)
		}
		if n.Max != nil {
			n.Max = r.expr(n.Max)
		}
	}
	return e
}

func (r *rewriter) selectStmt(n *ast.SelectStmt) ast.Stmt {
	r.needVrt = true
	r.counters["select"]++
	var lhs, rhs []ast.Expr
	var cases []ast.Expr
	var clauses []ast.Stmt
	hasDefault := false
	idx := 0
	for _, c := range n.Body.List {
		cc := c.(*ast.CommClause)
		r.stmts(cc.Body)
		if cc.Comm == nil {
			hasDefault = true
			clauses = append(clauses, &ast.CaseClause{List: []ast.Expr{&ast.UnaryExpr{Op: token.SUB, X: &ast.BasicLit{Kind: token.INT, Value: "1"}}}, Body: cc.Body})
			continue
		}
		r.tmp++
		tmp := ast.NewIdent(fmt.Sprintf("__vch%d", r.tmp))
		var pre []ast.Stmt
		switch comm := cc.Comm.(type) {
		case *ast.ExprStmt: // <-ch
			u := unparen(comm.X).(*ast.UnaryExpr)
			lhs, rhs = append(lhs, tmp), append(rhs, r.expr(u.X))
			cases = append(cases, call(sel("vrt", "R"), tmp))
		case *ast.AssignStmt: // v := <-ch | v, ok := <-ch
			u := unparen(comm.Rhs[0]).(*ast.UnaryExpr)
			lhs, rhs = append(lhs, tmp), append(rhs, r.expr(u.X))
			cases = append(cases, call(sel("vrt", "R"), tmp))
			fn := "Got1"
			if len(comm.Lhs) == 2 {
				fn = "Got2"
			}
			pre = append(pre, &ast.AssignStmt{Lhs: comm.Lhs, Tok: comm.Tok, Rhs: []ast.Expr{call(sel("vrt", fn), tmp)}})
			// a declared-and-unused variable would not compile: reference it
			if comm.Tok == token.DEFINE {
				for _, l := range comm.Lhs {
					if id, ok := l.(*ast.Ident); ok && id.Name != "_" {
						pre = append(pre, &ast.AssignStmt{Lhs: []ast.Expr{ast.NewIdent("_")}, Tok: token.ASSIGN, Rhs: []ast.Expr{ast.NewIdent(id.Name)}})
					}
				}
			}
		case *ast.SendStmt:
			r.tmp++
			vtmp := ast.NewIdent(fmt.Sprintf("__vval%d", r.tmp))
			lhs, rhs = append(lhs, tmp, vtmp), append(rhs, r.expr(comm.Chan), r.expr(comm.Value))
			cases = append(cases, call(sel("vrt", "S"), tmp, vtmp))
		}
		clauses = append(clauses, &ast.CaseClause{
			List: []ast.Expr{&ast.BasicLit{Kind: token.INT, Value: strconv.Itoa(idx)}},
			Body: append(pre, cc.Body...),
		})
		idx++
	}
	clauses = append(clauses, &ast.CaseClause{List: nil, Body: []ast.Stmt{&ast.ExprStmt{X: call(ast.NewIdent("panic"), strLit("vrt: unreachable select arm"))}}})
	def := "false"
	if hasDefault {
		def = "true"
	}
	args := append([]ast.Expr{ast.NewIdent(def)}, cases...)
	sw := &ast.SwitchStmt{Tag: call(sel("vrt", "Select"), args...), Body: &ast.BlockStmt{List: clauses}}
	if len(lhs) > 0 {
		for i := range rhs {
			rhs[i] = &ast.ParenExpr{X: rhs[i]}
		}
		sw.Init = &ast.AssignStmt{Lhs: lhs, Tok: token.DEFINE, Rhs: rhs}
	}
	return sw
}

func unparen(e ast.Expr) ast.Expr {
	for {
		p, ok := e.(*ast.ParenExpr)
		if !ok {
			return e
		}
		e = p.X
	}
}
