package vigil

// VerifCount returns the raw vigil counter without a scheduling point (harness observation only).
//
//go:norace
func VerifCount(v Vigil) int64 { return v.(*vigil).vigils }
