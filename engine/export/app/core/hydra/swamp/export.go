package swamp

// VerifSwampName returns the canonical name of a swamp instance without taking locks or hitting scheduling points
// (observation probes only).
//
//go:norace
func VerifSwampName(x any) string {
	if s, ok := x.(*swamp); ok && s.name != nil {
		return s.name.Get()
	}
	return ""
}
