package guard

// VerifState returns a copy of the guard's queue and its ID counter. It takes no lock: the harness calls it
// only from the controlled scheduler's observation hook, while every managed thread is parked.
//
//go:norace
func VerifState(g Guard) ([]int64, int64) {
	x := g.(*guard)
	return append([]int64(nil), x.waitForUnlock...), x.largestGuardID
}
