package lock

// VerifQueues returns, for every key that has a queue object in the lock's map, the caller ids queued on it
// (head first). No lock is taken and no scheduling point is hit: the harness calls it only while every managed
// thread is parked.
//
//go:norace
func VerifQueues(l Lock) map[string][]string {
	out := map[string][]string{}
	l.(*lock).queues.RawRange(func(k, v any) bool {
		q := v.(*queue)
		ids := make([]string, 0, len(q.callers))
		for _, c := range q.callers {
			ids = append(ids, c.id)
		}
		out[k.(string)] = ids
		return true
	})
	return out
}
