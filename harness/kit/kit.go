// Package kit is the small amount of shared plumbing every property harness uses:
// tier/seed handling, evidence writing, known-finding matching, replay files and process sharding.
package kit

import (
	"encoding/json"
	"fmt"
	"hash/fnv"
	"os"
	"os/exec"
	"path/filepath"
	"runtime"
	"runtime/pprof"
	"sort"
	"strconv"
	"strings"
	"sync"
	"syscall"
	"time"
)

const VerifRoot = "/verif"

// Failure is one oracle failure, already classified into a signature.
type Failure struct {
	Signature string `json:"signature"` // "<prop>|<harness>|<discriminator>"
	What      string `json:"what"`
	Case      any    `json:"case"` // the failing input / schedule / history, replayable
}

type partial struct {
	Evaluations int64            `json:"evaluations"`
	Distinct    []uint64         `json:"distinct"`
	Samples     []any            `json:"samples"`
	Failures    []Failure        `json:"failures"`
	FailCounts  map[string]int64 `json:"fail_counts"`
	Counters    map[string]int64 `json:"counters"`
	Outcomes    []uint64         `json:"outcomes"`
	NotExh      []string         `json:"not_exhaustive"`
}

type Run struct {
	Prop, Level, Tier string
	Seed              int64
	Rule              string
	Assumptions       []string
	Extra             map[string]any
	// WorkerCrashed, when set, is asked about a worker process of Parallel that died. It may turn the death into a
	// failure of the property (r.Fail) and return true; the items that worker had not reached stay unexplored (the
	// run is marked not exhaustive). Returning false keeps the default: an internal error of the machinery.
	WorkerCrashed func(worker int, output string) bool

	mu          sync.Mutex
	start       time.Time
	evaluations int64
	distinct    map[uint64]struct{}
	outcomes    map[uint64]struct{}
	samples     []any
	failures    []Failure // first few per signature
	failCounts  map[string]int64
	counters    map[string]int64
	notExh      []string
	worker      bool
	shard, nsh  int
	deadline    time.Time
	finished    bool
	seq         int
}

func envOr(k, d string) string {
	if v := os.Getenv(k); v != "" {
		return v
	}
	return d
}

// Start begins a run for one property. Level is the evidence level.
func Start(prop, level string) *Run {
	r := &Run{Prop: prop, Level: level, Tier: envOr("VERIF_TIER", "quick"), Extra: map[string]any{},
		distinct: map[uint64]struct{}{}, outcomes: map[uint64]struct{}{}, failCounts: map[string]int64{}, counters: map[string]int64{}, start: time.Now()}
	if r.Tier != "thorough" {
		r.Tier = "quick"
	}
	r.Seed, _ = strconv.ParseInt(envOr("VERIF_SEED", "0"), 10, 64)
	if w := os.Getenv("VERIF_WORKER"); w != "" {
		fmt.Sscanf(w, "%d/%d", &r.shard, &r.nsh)
		r.worker = true
	}
	budget := 150 * time.Second
	if r.Tier == "thorough" {
		budget = 25 * time.Minute
	}
	if b := os.Getenv("VERIF_BUDGET_S"); b != "" {
		if n, err := strconv.Atoi(b); err == nil {
			budget = time.Duration(n) * time.Second
		}
	}
	r.deadline = r.start.Add(budget)
	return r
}

// Shard returns this process' index and the number of worker processes (0,1 outside a worker).
func (r *Run) Shard() (int, int) {
	if !r.worker || r.nsh <= 1 {
		return 0, 1
	}
	return r.shard, r.nsh
}

func (r *Run) Quick() bool    { return r.Tier == "quick" }
func (r *Run) IsWorker() bool { return r.worker }

// OutOfTime reports whether the internal wall-clock budget is used up. Harnesses poll it at coarse
// boundaries, stop cleanly and call NotExhaustive: a cap is never an alarm.
func (r *Run) OutOfTime() bool { return time.Now().After(r.deadline) }

func (r *Run) NotExhaustive(why string) {
	r.mu.Lock()
	defer r.mu.Unlock()
	for _, w := range r.notExh {
		if w == why {
			return
		}
	}
	r.notExh = append(r.notExh, why)
}

func h64(s string) uint64 {
	h := fnv.New64a()
	h.Write([]byte(s))
	return h.Sum64()
}

func (r *Run) Eval(n int) {
	r.mu.Lock()
	r.evaluations += int64(n)
	r.mu.Unlock()
}

// Nontrivial records a case that is non-trivial by the harness' rule; distinct keys are counted.
func (r *Run) Nontrivial(key string) {
	h := h64(key)
	r.mu.Lock()
	if len(r.distinct) < 4_000_000 {
		r.distinct[h] = struct{}{}
	}
	r.mu.Unlock()
}

// Outcome records an observed outcome class (vacuity check: many executions with one outcome mean nothing collided).
func (r *Run) Outcome(key string) {
	h := h64(key)
	r.mu.Lock()
	if len(r.outcomes) < 1_000_000 {
		r.outcomes[h] = struct{}{}
	}
	r.mu.Unlock()
}

func (r *Run) Count(name string, n int64) {
	r.mu.Lock()
	r.counters[name] += n
	r.mu.Unlock()
}

// SetMax keeps the maximum of a counter (merged with max across shards when the name starts with "max_").
func (r *Run) SetMax(name string, n int64) {
	r.mu.Lock()
	if n > r.counters[name] {
		r.counters[name] = n
	}
	r.mu.Unlock()
}

func (r *Run) Sample(v any) {
	r.mu.Lock()
	if len(r.samples) < 6 {
		r.samples = append(r.samples, v)
	}
	r.mu.Unlock()
}

// Fail records an oracle failure. disc is the classifier's discriminator; the signature is prop|harness|disc.
func (r *Run) Fail(harness, disc, what string, c any) {
	sig := r.Prop + "|" + harness + "|" + disc
	r.mu.Lock()
	r.failCounts[sig]++
	if r.failCounts[sig] <= 3 {
		r.failures = append(r.failures, Failure{Signature: sig, What: what, Case: c})
	}
	r.mu.Unlock()
}

// Watchdog runs fn; if it has not returned after 90 s of wall clock (the operations it guards take
// micro- to milliseconds) the call is recorded as a hang under the given signature and the process finishes
// at once with what it has (a hung call cannot be aborted). This is the only wall-clock oracle in the kit and
// is used only for code that runs outside the controlled scheduler.
func (r *Run) Watchdog(harness, disc, what string, c any, fn func()) {
	done := make(chan struct{})
	go func() {
		select {
		case <-done:
		case <-time.After(20 * time.Minute):
			// A verdict that depends on the wall clock must not fire on a loaded machine: a zstd frame with a forged
			// window size takes 0.5 s alone and took more than 90 s with 16 workers and other jobs running (DESIGN §6).
			// Twenty minutes of one call on a few bytes is a hang on any machine this runs on.
			r.Fail(harness, disc, what, c)
			r.NotExhaustive("aborted after a hung call")
			r.Finish()
		}
	}()
	fn()
	close(done)
}

// Mine says whether work item i belongs to this process (always true outside a worker).
func (r *Run) Mine(i int) bool {
	if !r.worker {
		return true
	}
	return i%r.nsh == r.shard
}

// Next hands out work-item indices 0,1,2,... dynamically: in worker processes through a counter file shared by all
// workers of the run (so that a few expensive items do not leave the other processes idle), sequentially
// otherwise. Use either Mine or Next in a harness, not both.
func (r *Run) Next() int {
	if !r.worker || os.Getenv("VERIF_CLAIM") == "" {
		r.mu.Lock()
		defer r.mu.Unlock()
		r.seq++
		return r.seq - 1
	}
	f, err := os.OpenFile(os.Getenv("VERIF_CLAIM"), os.O_RDWR|os.O_CREATE, 0644)
	if err != nil {
		fmt.Fprintln(os.Stderr, "INTERNAL: claim file:", err)
		os.Exit(2)
	}
	defer f.Close()
	if err := syscall.Flock(int(f.Fd()), syscall.LOCK_EX); err != nil {
		fmt.Fprintln(os.Stderr, "INTERNAL: claim lock:", err)
		os.Exit(2)
	}
	defer syscall.Flock(int(f.Fd()), syscall.LOCK_UN)
	b := make([]byte, 32)
	n, _ := f.ReadAt(b, 0)
	cur, _ := strconv.Atoi(strings.TrimSpace(string(b[:n])))
	f.WriteAt([]byte(fmt.Sprintf("%-31d\n", cur+1)), 0)
	return cur
}

// Parallel runs body in n worker subprocesses of the same test binary (same -test.run), each seeing
// Mine(i) for its share, and merges what they recorded. In a worker it just runs body.
func (r *Run) Parallel(n int, testName string, body func()) {
	if r.worker || n <= 1 || os.Getenv("VERIF_NOFORK") != "" {
		body()
		return
	}
	if n > runtime.NumCPU() {
		n = runtime.NumCPU()
	}
	dir, err := os.MkdirTemp("/dev/shm", "verif-"+r.Prop+"-")
	if err != nil {
		dir, _ = os.MkdirTemp("", "verif-"+r.Prop+"-")
	}
	defer os.RemoveAll(dir)
	var wg sync.WaitGroup
	errs := make([]error, n)
	outs := make([]string, n)
	for i := 0; i < n; i++ {
		wg.Add(1)
		go func(i int) {
			defer wg.Done()
			pf := filepath.Join(dir, fmt.Sprintf("part%d.json", i))
			cmd := exec.Command(os.Args[0], "-test.run", "^"+testName+"$", "-test.timeout", "0")
			cmd.Env = append(os.Environ(), fmt.Sprintf("VERIF_WORKER=%d/%d", i, n), "VERIF_PARTIAL="+pf, "VERIF_CLAIM="+filepath.Join(dir, "claim"), "GOMAXPROCS=2",
				fmt.Sprintf("VERIF_BUDGET_S=%d", int(time.Until(r.deadline).Seconds())))
			out, err := cmd.CombinedOutput()
			outs[i] = string(out)
			if os.Getenv("VERIF_DEBUG") != "" {
				os.Stderr.Write(out)
			}
			if err != nil {
				if r.WorkerCrashed != nil && r.WorkerCrashed(i, outs[i]) {
					r.NotExhaustive(fmt.Sprintf("worker %d of %d died (reported as a failure); its share of the items is not covered", i, n))
					return
				}
				errs[i] = fmt.Errorf("worker %d: %v", i, err)
				return
			}
			b, err := os.ReadFile(pf)
			if err != nil {
				errs[i] = fmt.Errorf("worker %d wrote no partial: %v", i, err)
				return
			}
			var p partial
			if err := json.Unmarshal(b, &p); err != nil {
				errs[i] = err
				return
			}
			r.merge(&p)
		}(i)
	}
	wg.Wait()
	for i, e := range errs {
		if e != nil {
			tail := outs[i]
			if len(tail) > 6000 {
				tail = tail[len(tail)-6000:]
			}
			fmt.Fprintf(os.Stderr, "INTERNAL: %v\n%s\n", e, tail)
			os.Exit(2)
		}
	}
}

func (r *Run) merge(p *partial) {
	r.mu.Lock()
	defer r.mu.Unlock()
	r.evaluations += p.Evaluations
	for _, h := range p.Distinct {
		r.distinct[h] = struct{}{}
	}
	for _, h := range p.Outcomes {
		r.outcomes[h] = struct{}{}
	}
	for _, s := range p.Samples {
		if len(r.samples) < 6 {
			r.samples = append(r.samples, s)
		}
	}
	for sig, n := range p.FailCounts {
		r.failCounts[sig] += n
	}
	for _, f := range p.Failures {
		cnt := 0
		for _, g := range r.failures {
			if g.Signature == f.Signature {
				cnt++
			}
		}
		if cnt < 3 {
			r.failures = append(r.failures, f)
		}
	}
	for k, v := range p.Counters {
		if strings.HasPrefix(k, "max_") {
			if v > r.counters[k] {
				r.counters[k] = v
			}
		} else {
			r.counters[k] += v
		}
	}
	for _, w := range p.NotExh {
		dup := false
		for _, x := range r.notExh {
			dup = dup || x == w
		}
		if !dup {
			r.notExh = append(r.notExh, w)
		}
	}
}

type knownFile struct {
	Findings []struct {
		Property  string `json:"property"`
		Signature string `json:"signature"`
		What      string `json:"what"`
	} `json:"findings"`
}

func loadKnown() map[string]string {
	m := map[string]string{}
	b, err := os.ReadFile(filepath.Join(VerifRoot, "known_findings.json"))
	if err != nil {
		return m
	}
	var k knownFile
	if json.Unmarshal(b, &k) != nil {
		return m
	}
	for _, f := range k.Findings {
		m[f.Signature] = f.What
	}
	return m
}

// Finish writes the evidence (or, in a worker, the partial), prints KNOWN-FINDING / VIOLATION lines and exits.
func (r *Run) Finish() {
	if p := recover(); p != nil {
		// a panic of the harness itself is an internal error, never a verdict
		buf := make([]byte, 16384)
		n := runtime.Stack(buf, false)
		fmt.Fprintf(os.Stderr, "INTERNAL: harness panic: %v\n%s\n", p, buf[:n])
		os.Exit(2)
	}
	if r.finished {
		return
	}
	r.finished = true
	pprof.StopCPUProfile() // flush -test.cpuprofile (the process leaves through os.Exit)
	if r.worker {
		p := partial{Evaluations: r.evaluations, Samples: r.samples, Failures: r.failures, FailCounts: r.failCounts, Counters: r.counters, NotExh: r.notExh}
		for h := range r.distinct {
			p.Distinct = append(p.Distinct, h)
		}
		for h := range r.outcomes {
			p.Outcomes = append(p.Outcomes, h)
		}
		b, _ := json.Marshal(p)
		if err := os.WriteFile(os.Getenv("VERIF_PARTIAL"), b, 0644); err != nil {
			fmt.Fprintln(os.Stderr, "INTERNAL: cannot write partial:", err)
			os.Exit(2)
		}
		os.Exit(0)
	}
	if r.evaluations == 0 {
		fmt.Fprintln(os.Stderr, "INTERNAL: the harness evaluated nothing")
		os.Exit(2)
	}
	known := loadKnown()
	var sigs []string
	for s := range r.failCounts {
		sigs = append(sigs, s)
	}
	sort.Strings(sigs)
	violations := 0
	var knownHit []string
	for _, sig := range sigs {
		var first *Failure
		for i := range r.failures {
			if r.failures[i].Signature == sig {
				first = &r.failures[i]
				break
			}
		}
		if what, ok := known[sig]; ok {
			fmt.Printf("KNOWN-FINDING: property=%s %s [%s; %d cases this run]\n", r.Prop, what, sig, r.failCounts[sig])
			knownHit = append(knownHit, sig)
			continue
		}
		violations++
		path := filepath.Join(VerifRoot, "replays", fmt.Sprintf("%s-%016x.json", r.Prop, h64(sig)))
		rep := map[string]any{"property": r.Prop, "signature": sig, "count": r.failCounts[sig], "tier": r.Tier}
		if first != nil {
			rep["what"] = first.What
			rep["case"] = first.Case
		}
		b, _ := json.MarshalIndent(rep, "", " ")
		os.MkdirAll(filepath.Dir(path), 0755)
		os.WriteFile(path, b, 0644)
		what := ""
		if first != nil {
			what = first.What
		}
		fmt.Printf("VIOLATION property=%s replay=%s\n", r.Prop, path)
		fmt.Printf("  signature=%s cases=%d: %s\n", sig, r.failCounts[sig], what)
	}
	exhaustive := len(r.notExh) == 0
	cov := map[string]any{
		"evaluations":         r.evaluations,
		"distinct_nontrivial": len(r.distinct),
		"distinct_outcomes":   len(r.outcomes),
		"rule":                r.Rule,
		"samples":             r.samples,
		"exhaustive":          exhaustive,
	}
	if !exhaustive {
		cov["caps_hit"] = r.notExh
	}
	for k, v := range r.counters {
		cov[k] = v
	}
	for k, v := range r.Extra {
		cov[k] = v
	}
	if len(knownHit) > 0 {
		cov["known_findings_hit"] = knownHit
	}
	if cov["samples"] == nil || len(r.samples) == 0 {
		cov["samples"] = []any{"(no sample recorded)"}
	}
	ev := map[string]any{
		"property_id": r.Prop, "tier": r.Tier, "seed": r.Seed, "level": r.Level,
		"coverage": cov, "assumptions": r.Assumptions, "wall_s": time.Since(r.start).Seconds(), "violations": violations,
	}
	if r.Assumptions == nil {
		ev["assumptions"] = []string{}
	}
	b, _ := json.MarshalIndent(ev, "", " ")
	evPath := envOr("VERIF_EVIDENCE", filepath.Join(VerifRoot, "evidence", r.Prop+".json"))
	os.MkdirAll(filepath.Dir(evPath), 0755)
	if err := os.WriteFile(evPath, b, 0644); err != nil {
		fmt.Fprintln(os.Stderr, "INTERNAL: cannot write evidence:", err)
		os.Exit(2)
	}
	fmt.Printf("%s %s: evaluations=%d distinct_nontrivial=%d outcomes=%d exhaustive=%v violations=%d known=%d wall=%.1fs\n",
		r.Prop, r.Tier, r.evaluations, len(r.distinct), len(r.outcomes), exhaustive, violations, len(knownHit), time.Since(r.start).Seconds())
	if violations > 0 {
		os.Exit(1)
	}
	os.Exit(0)
}
