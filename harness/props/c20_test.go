package props

import (
	"fmt"
	"strings"
	"testing"

	sname "github.com/hydraide/hydraide/app/name"
	cname "github.com/hydraide/hydraide/sdk/go/hydraidego/v3/name"
	"verifharness/kit"
)

// C20 — swamp addressing is deterministic, in range and SDK/server-consistent.
// Enumerated: every name triple over a part alphabet x every island count x every (depth, folders-per-level)
// configuration; each function is evaluated on fresh objects (twice) and on an object that has already answered
// for another configuration.
func TestC20(t *testing.T) {
	r := kit.Start("C20", "exploration")
	defer r.Finish()
	long := strings.Repeat("x", 300)
	parts := []string{"", "a", "b", "ab", "a/b", "é", "*", long}
	if !r.Quick() {
		parts = append(parts, "b/a", "A", " ", "\x00", "a\xffb", "/")
	}
	islands := []uint64{1, 2, 10, 1000, 65535}
	sdkOnly := []uint64{65536, 1 << 32, 1<<64 - 1}
	depths := []int{0, 1, 2, 3, 4, 5, 6, 7, 8}
	fpls := []int{1, 2, 16, 255, 256, 1000, 2000, 4096, 65536}
	r.Rule = fmt.Sprintf("all %d^3 name triples over the part alphabet %q (300-byte part abbreviated) x island counts %v (SDK also %v) x depth %v x folders-per-level %v; every function computed twice on fresh Name objects (built with Sanctuary/Realm/Swamp and, where the parts contain no separator, also with Load) and once on an object that already answered for another configuration. Oracle: no panic; 1<=island<=N; SDK GetIslandID == server GetFolderNumber for N<=65535; results equal across fresh objects and across the reused object; for one configuration two different triples never get the same location. Non-trivial = distinct (triple, configuration) evaluations", len(parts), parts[:7], islands, sdkOnly, depths, fpls)
	r.Assumptions = []string{"64-bit xxhash collisions between unrelated names are outside any enumerable bound and are not searched for", "shipped configuration = depth 1..3 with folders-per-level <= 2000 (server.go uses depth 1, 1000); everything else is reported as class 'extended'"}

	class := func(depth, fpl int) string {
		if depth >= 1 && depth <= 3 && fpl <= 2000 {
			return "shipped"
		}
		return "extended"
	}
	type triple struct{ s, rl, w string }
	mkS := func(tr triple) sname.Name { return sname.New().Sanctuary(tr.s).Realm(tr.rl).Swamp(tr.w) }
	mkC := func(tr triple) cname.Name { return cname.New().Sanctuary(tr.s).Realm(tr.rl).Swamp(tr.w) }
	sh := func(tr triple) string { return fmt.Sprintf("(%s,%s,%s)", short(tr.s), short(tr.rl), short(tr.w)) }
	hasSep := func(tr triple) bool { return strings.Contains(tr.s+tr.rl+tr.w, "/") }

	var triples []triple
	for _, a := range parts {
		for _, b := range parts {
			for _, c := range parts {
				triples = append(triples, triple{a, b, c})
			}
		}
	}

	safe := func(f func()) (p any) {
		defer func() { p = recover() }()
		f()
		return nil
	}

	r.Parallel(16, "TestC20", func() {
		// ---- island numbers ----
		for ti, tr := range triples {
			if !r.Mine(ti) {
				continue
			}
			desc := map[string]any{"sanctuary": tr.s, "realm": tr.rl, "swamp": tr.w}
			for ni, n := range islands {
				r.Eval(1)
				r.Nontrivial(fmt.Sprintf("island/%d/%d", ti, n))
				var s1, s2 uint16
				var c1, c2 uint64
				if p := safe(func() {
					s1, s2 = mkS(tr).GetFolderNumber(uint16(n)), mkS(tr).GetFolderNumber(uint16(n))
					c1, c2 = mkC(tr).GetIslandID(n), mkC(tr).GetIslandID(n)
				}); p != nil {
					r.Fail("island", "panic", fmt.Sprintf("island computation panics for %s N=%d: %v", sh(tr), n, p), desc)
					continue
				}
				r.Outcome(fmt.Sprintf("island-in-range:%v", s1 >= 1 && uint64(s1) <= n))
				if s1 != s2 || c1 != c2 {
					r.Fail("island", "nondeterministic", fmt.Sprintf("two fresh objects for %s N=%d disagree: server %d/%d sdk %d/%d", sh(tr), n, s1, s2, c1, c2), desc)
				}
				if s1 < 1 || uint64(s1) > n || c1 < 1 || c1 > n {
					r.Fail("island", "out-of-range", fmt.Sprintf("island of %s with N=%d is server %d sdk %d", sh(tr), n, s1, c1), desc)
				}
				if uint64(s1) != c1 {
					r.Fail("island", "sdk-server-differ", fmt.Sprintf("island of %s with N=%d: server %d, sdk %d", sh(tr), n, s1, c1), desc)
				}
				if !hasSep(tr) {
					p := tr.s + "/" + tr.rl + "/" + tr.w
					if l := sname.Load(p).GetFolderNumber(uint16(n)); l != s1 {
						r.Fail("island", "load-differs", fmt.Sprintf("server Load(%s) gives island %d, the builder %d (N=%d)", short(p), l, s1, n), desc)
					}
					if l := cname.Load(p).GetIslandID(n); l != c1 {
						r.Fail("island", "load-differs", fmt.Sprintf("sdk Load(%s) gives island %d, the builder %d (N=%d)", short(p), l, c1, n), desc)
					}
				}
				// an object that already answered for another N
				other := islands[(ni+1)%len(islands)]
				so, co := mkS(tr), mkC(tr)
				so.GetFolderNumber(uint16(other))
				co.GetIslandID(other)
				if got := so.GetFolderNumber(uint16(n)); got != s1 {
					r.Outcome("island-reuse-stale")
					r.Fail("island", "server-memoised-ignores-N", fmt.Sprintf("server Name %s asked for N=%d and then N=%d answers %d, a fresh object answers %d", sh(tr), other, n, got, s1), desc)
				}
				if got := co.GetIslandID(n); got != c1 {
					r.Fail("island", "sdk-memoised-ignores-N", fmt.Sprintf("sdk Name %s asked for N=%d and then N=%d answers %d, a fresh object answers %d", sh(tr), other, n, got, c1), desc)
				}
			}
			for _, n := range sdkOnly {
				r.Eval(1)
				r.Nontrivial(fmt.Sprintf("island/%d/%d", ti, n))
				var c1, c2 uint64
				if p := safe(func() { c1, c2 = mkC(tr).GetIslandID(n), mkC(tr).GetIslandID(n) }); p != nil {
					r.Fail("island", "panic", fmt.Sprintf("sdk island computation panics for %s N=%d: %v", sh(tr), n, p), desc)
					continue
				}
				if c1 != c2 || c1 < 1 || c1 > n {
					r.Fail("island", "out-of-range", fmt.Sprintf("sdk island of %s with N=%d is %d/%d", sh(tr), n, c1, c2), desc)
				}
			}
		}
		// ---- locations ----
		ci := 0
		for _, depth := range depths {
			for _, fpl := range fpls {
				ci++
				if !r.Mine(ci) {
					continue
				}
				cl := class(depth, fpl)
				seen := map[string]int{}
				for ti, tr := range triples {
					r.Eval(1)
					r.Nontrivial(fmt.Sprintf("path/%d/%d/%d", ti, depth, fpl))
					desc := map[string]any{"sanctuary": tr.s, "realm": tr.rl, "swamp": tr.w, "depth": depth, "folders_per_level": fpl, "class": cl}
					var p1, p2 string
					if p := safe(func() {
						p1 = mkS(tr).GetFullHashPath("/data", 7, depth, fpl)
						p2 = mkS(tr).GetFullHashPath("/data", 7, depth, fpl)
					}); p != nil {
						r.Outcome("path-panic:" + cl)
						r.Fail("path", "panic:"+cl, fmt.Sprintf("GetFullHashPath panics for %s depth=%d foldersPerLevel=%d: %v", sh(tr), depth, fpl, p), desc)
						continue
					}
					r.Outcome("path-ok:" + cl)
					if p1 != p2 {
						r.Fail("path", "nondeterministic", fmt.Sprintf("two fresh objects for %s give %s and %s", sh(tr), p1, p2), desc)
					}
					if !strings.HasPrefix(p1, "/data/7/") && p1 != "/data/7" {
						r.Fail("path", "outside-island-folder", fmt.Sprintf("location of %s is %s, not under /data/7", sh(tr), p1), desc)
					}
					// reused object: first asked for another island / configuration
					o := mkS(tr)
					if safe(func() { o.GetFullHashPath("/data", 8, 1, 1000) }) == nil {
						if got := o.GetFullHashPath("/data", 7, depth, fpl); got != p1 {
							r.Outcome("path-reuse-stale")
							r.Fail("path", "memoised-ignores-config", fmt.Sprintf("a Name %s that answered for island 8/depth 1/1000 answers %s for island 7/depth %d/%d, a fresh object answers %s", sh(tr), got, depth, fpl, p1), desc)
						}
					}
					// one object used for BOTH questions, in both orders: each answer must equal the fresh-object answer
					if depth == 2 && (fpl == 16 || fpl == 2000) {
						fi := mkS(tr).GetFolderNumber(1000)
						a := mkS(tr)
						ai := a.GetFolderNumber(1000)
						ap := a.GetFullHashPath("/data", 7, depth, fpl)
						b := mkS(tr)
						bp := b.GetFullHashPath("/data", 7, depth, fpl)
						bi := b.GetFolderNumber(1000)
						if ap != p1 || bp != p1 {
							r.Fail("path", "location-depends-on-earlier-island-question", fmt.Sprintf("Name %s: location asked after the island number is %s, asked first %s, fresh object %s", sh(tr), ap, bp, p1), desc)
						}
						if ai != fi || bi != fi {
							r.Fail("island", "island-depends-on-earlier-location-question", fmt.Sprintf("Name %s: island (N=1000) asked first %d, asked after the location %d, fresh object %d", sh(tr), ai, bi, fi), desc)
						}
						if c := mkC(tr).GetIslandID(1000); uint64(bi) != c {
							r.Fail("island", "sdk-server-differ", fmt.Sprintf("island of %s with N=1000 on a server Name that answered a location first: %d, sdk %d", sh(tr), bi, c), desc)
						}
					}
					if prev, dup := seen[p1]; dup {
						pt := triples[prev]
						d := "other"
						if hasSep(tr) || hasSep(pt) {
							d = "separator-in-part"
						}
						r.Outcome("path-collision:" + d)
						desc["other"] = map[string]any{"sanctuary": pt.s, "realm": pt.rl, "swamp": pt.w}
						r.Fail("path", "collision:"+d, fmt.Sprintf("names %s and %s resolve to the same location %s", sh(pt), sh(tr), p1), desc)
					} else {
						seen[p1] = ti
					}
				}
			}
		}
		if r.Mine(0) {
			tr := triple{"a", "b", "ab"}
			r.Sample(map[string]any{"name": tr, "island_N1000_server": mkS(tr).GetFolderNumber(1000), "island_N1000_sdk": mkC(tr).GetIslandID(1000), "path_depth2_fpl1000": mkS(tr).GetFullHashPath("/data", 7, 2, 1000)})
		}
	})
}
