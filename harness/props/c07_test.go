package props

import (
	"context"
	"fmt"
	"sort"
	"strings"
	"testing"

	hydrapb "github.com/hydraide/hydraide/sdk/go/hydraidego/v3/hydraidepbgo"
	"google.golang.org/grpc/metadata"
	"google.golang.org/protobuf/types/known/timestamppb"
	"verifharness/kit"
)

// C07 — ordered index reads return the correctly sorted, ranged page.
// All histories up to a length over a small alphabet (sets with equal / distinct / absent timestamps and values,
// updates that move the sort value, deletes, and a Read symbol that makes the server build every index
// mid-history); after each history EVERY index request of a bounded family is issued through GetByIndex and
// GetByIndexStream and compared with a reference sort.

// fakeStream is an in-process grpc.ServerStreamingServer that records what the handler sends.
type fakeStream[T any] struct {
	ctx  context.Context
	sent []*T
}

func (f *fakeStream[T]) Send(m *T) error             { f.sent = append(f.sent, m); return nil }
func (f *fakeStream[T]) SetHeader(metadata.MD) error  { return nil }
func (f *fakeStream[T]) SendHeader(metadata.MD) error { return nil }
func (f *fakeStream[T]) SetTrailer(metadata.MD)       {}
func (f *fakeStream[T]) Context() context.Context {
	if f.ctx == nil {
		return bg
	}
	return f.ctx
}
func (f *fakeStream[T]) SendMsg(m any) error { return nil }
func (f *fakeStream[T]) RecvMsg(m any) error { return nil }

type c07rec struct {
	val        int32
	void       bool
	c, u, e    int64 // seconds; 0 = absent
}

type c07sym struct {
	name  string
	run   func(r *rigT, swamp string)
	model func(m map[string]*c07rec)
}

const (
	c07T1 = 1700000100
	c07T2 = 1700000200
	c07T3 = 1700000300
)

func c07readAll(r *rigT, swamp string) {
	for _, it := range []hydrapb.IndexType_Type{hydrapb.IndexType_KEY, hydrapb.IndexType_CREATION_TIME, hydrapb.IndexType_UPDATE_TIME, hydrapb.IndexType_EXPIRATION_TIME, hydrapb.IndexType_VALUE_INT32} {
		for _, ot := range []hydrapb.OrderType_Type{hydrapb.OrderType_ASC, hydrapb.OrderType_DESC} {
			r.gw.GetByIndex(bg, &hydrapb.GetByIndexRequest{IslandID: 1, SwampName: swamp, IndexType: it, OrderType: ot})
		}
	}
}

func c07alphabet() []c07sym {
	var syms []c07sym
	set := func(key string, val int32, c, u, e int64) c07sym {
		return c07sym{fmt.Sprintf("Set(%s,%d,c=%d,u=%d,e=%d)", key, val, c%1000, u%1000, e%1000),
			func(r *rigT, swamp string) {
				kv := &hydrapb.KeyValuePair{Key: key, Int32Val: p(val)}
				if c != 0 {
					kv.CreatedAt = ts(c)
				}
				if u != 0 {
					kv.UpdatedAt = ts(u)
				}
				if e != 0 {
					kv.ExpiredAt = ts(e)
				}
				r.gw.Set(bg, &hydrapb.SetRequest{Swamps: []*hydrapb.SwampRequest{{IslandID: 1, SwampName: swamp, CreateIfNotExist: true, Overwrite: true, KeyValues: []*hydrapb.KeyValuePair{kv}}}})
			},
			func(m map[string]*c07rec) {
				rec, ok := m[key]
				if !ok {
					rec = &c07rec{}
					m[key] = rec
				}
				rec.val, rec.void = val, false
				if c != 0 {
					rec.c = c
				}
				if u != 0 {
					rec.u = u
				}
				if e != 0 {
					rec.e = e
				}
			}}
	}
	for _, key := range []string{"a", "b", "c"} {
		key := key
		syms = append(syms,
			set(key, 1, c07T1, c07T1, c07T1),
			set(key, 2, c07T2, c07T2, c07T2),
			set(key, 1, 0, 0, 0),
			set(key, 3, 0, c07T3, 0), // update that moves value and update time only
			c07sym{"Delete(" + key + ")",
				func(r *rigT, swamp string) {
					r.gw.Delete(bg, &hydrapb.DeleteRequest{Swamps: []*hydrapb.DeleteRequest_SwampKeys{{IslandID: 1, SwampName: swamp, Keys: []string{key}}}})
				},
				func(m map[string]*c07rec) { delete(m, key) }})
	}
	syms = append(syms,
		c07sym{"Set(c,void)",
			func(r *rigT, swamp string) {
				r.gw.Set(bg, &hydrapb.SetRequest{Swamps: []*hydrapb.SwampRequest{{IslandID: 1, SwampName: swamp, CreateIfNotExist: true, Overwrite: true, KeyValues: []*hydrapb.KeyValuePair{{Key: "c", VoidVal: p(true)}}}}})
			},
			func(m map[string]*c07rec) {
				rec, ok := m["c"]
				if !ok {
					rec = &c07rec{}
					m["c"] = rec
				}
				rec.void, rec.val = true, 0
			}},
		c07sym{"ReadAllIndexes", c07readAll, func(m map[string]*c07rec) {}})
	return syms
}

type c07req struct {
	it       hydrapb.IndexType_Type
	desc     bool
	from, lim int32
	ft, tt   int64 // 0 = nil
}

func (q c07req) String() string {
	o := "ASC"
	if q.desc {
		o = "DESC"
	}
	return fmt.Sprintf("%s %s from=%d limit=%d window=[%d,%d)", q.it, o, q.from, q.lim, q.ft%1000, q.tt%1000)
}

func c07requests() []c07req {
	var qs []c07req
	type win struct{ f, t int64 }
	wins := []win{{0, 0}, {c07T1, 0}, {c07T2, 0}, {0, c07T2}, {0, c07T3}, {c07T1, c07T2}, {c07T1, c07T3}, {c07T2, c07T3 + 1}, {c07T3 + 1, 0}}
	for _, it := range []hydrapb.IndexType_Type{hydrapb.IndexType_KEY, hydrapb.IndexType_CREATION_TIME, hydrapb.IndexType_UPDATE_TIME, hydrapb.IndexType_EXPIRATION_TIME, hydrapb.IndexType_VALUE_INT32} {
		timed := it == hydrapb.IndexType_CREATION_TIME || it == hydrapb.IndexType_UPDATE_TIME || it == hydrapb.IndexType_EXPIRATION_TIME
		for _, desc := range []bool{false, true} {
			for _, from := range []int32{0, 1, 2, 5} {
				for _, lim := range []int32{0, 1, 2} {
					for wi, w := range wins {
						if !timed && wi > 0 {
							break
						}
						qs = append(qs, c07req{it, desc, from, lim, w.f, w.t})
					}
				}
			}
		}
	}
	return qs
}

type c07item struct {
	key string
	sv  int64
	ks  string
}

// c07expect is the reference: members carrying the attribute, sorted, restricted to [from,to), paged.
// It returns the expected sequence of sort values and, per sort value, the admissible keys.
func c07expect(m map[string]*c07rec, q c07req) (vals []string, admissible map[string]map[string]bool) {
	var items []c07item
	for k, r := range m {
		switch q.it {
		case hydrapb.IndexType_KEY:
			items = append(items, c07item{k, 0, k})
		case hydrapb.IndexType_CREATION_TIME:
			if r.c != 0 {
				items = append(items, c07item{k, r.c, ""})
			}
		case hydrapb.IndexType_UPDATE_TIME:
			if r.u != 0 {
				items = append(items, c07item{k, r.u, ""})
			}
		case hydrapb.IndexType_EXPIRATION_TIME:
			if r.e != 0 {
				items = append(items, c07item{k, r.e, ""})
			}
		case hydrapb.IndexType_VALUE_INT32:
			if !r.void {
				items = append(items, c07item{k, int64(r.val), ""})
			}
		}
	}
	var kept []c07item
	for _, it := range items {
		if q.ft != 0 && it.sv < q.ft {
			continue
		}
		if q.tt != 0 && it.sv >= q.tt {
			continue
		}
		kept = append(kept, it)
	}
	sort.Slice(kept, func(i, j int) bool {
		a, b := kept[i], kept[j]
		less := a.sv < b.sv || (a.sv == b.sv && a.ks < b.ks)
		if a.sv == b.sv && a.ks == b.ks {
			return false
		}
		if q.desc {
			return !less
		}
		return less
	})
	admissible = map[string]map[string]bool{}
	sval := func(it c07item) string {
		if q.it == hydrapb.IndexType_KEY {
			return it.ks
		}
		return fmt.Sprint(it.sv)
	}
	for _, it := range kept {
		s := sval(it)
		if admissible[s] == nil {
			admissible[s] = map[string]bool{}
		}
		admissible[s][it.key] = true
	}
	start := int(q.from)
	if start > len(kept) {
		start = len(kept)
	}
	end := len(kept)
	if q.lim > 0 && start+int(q.lim) < end {
		end = start + int(q.lim)
	}
	for _, it := range kept[start:end] {
		vals = append(vals, sval(it))
	}
	return
}

func c07sortval(t *hydrapb.Treasure, it hydrapb.IndexType_Type) string {
	sec := func(x *timestamppb.Timestamp) string {
		if x == nil {
			return "0"
		}
		return fmt.Sprint(x.Seconds)
	}
	switch it {
	case hydrapb.IndexType_KEY:
		return t.Key
	case hydrapb.IndexType_CREATION_TIME:
		return sec(t.CreatedAt)
	case hydrapb.IndexType_UPDATE_TIME:
		return sec(t.UpdatedAt)
	case hydrapb.IndexType_EXPIRATION_TIME:
		return sec(t.ExpiredAt)
	default:
		if t.Int32Val == nil {
			return "no-int32-value"
		}
		return fmt.Sprint(*t.Int32Val)
	}
}

// c07check compares one answer with the reference; returns "" or a discriminator + explanation.
func c07check(ans []*hydrapb.Treasure, m map[string]*c07rec, q c07req) (string, string) {
	vals, adm := c07expect(m, q)
	var got []string
	seen := map[string]bool{}
	for _, t := range ans {
		got = append(got, fmt.Sprintf("%s(%s)", t.Key, c07sortval(t, q.it)))
	}
	exp := fmt.Sprintf("sort values %v", vals)
	if len(ans) != len(vals) {
		d := "too-few-records"
		if len(ans) > len(vals) {
			d = "too-many-records"
		}
		return d, fmt.Sprintf("got %v, expected %s", got, exp)
	}
	for i, t := range ans {
		sv := c07sortval(t, q.it)
		if seen[t.Key] {
			return "duplicate-record", fmt.Sprintf("got %v", got)
		}
		seen[t.Key] = true
		if sv != vals[i] {
			return "wrong-order-or-member", fmt.Sprintf("got %v, expected %s", got, exp)
		}
		if !adm[sv][t.Key] {
			return "record-without-the-attribute-or-outside-window", fmt.Sprintf("got %v, expected %s", got, exp)
		}
	}
	return "", ""
}

func TestC07(t *testing.T) {
	rigSetup()
	quietLogs()
	r := kit.Start("C07", "exploration")
	defer r.Finish()
	syms := c07alphabet()
	reqs := c07requests()
	maxLen := 3
	if !r.Quick() {
		maxLen = 4
	}
	var names []string
	for _, s := range syms {
		names = append(names, s.name)
	}
	r.Extra["alphabet"] = names
	r.Extra["requests_per_history"] = 2 * len(reqs)
	r.Rule = fmt.Sprintf("every history of length <= %d over %d symbols on keys a,b,c (Set int32 1/2/3 with all three timestamps equal T1 / equal T2 / absent, an update that moves only the value and the update time, Delete, Set void, and ReadAllIndexes which makes the server build every index mid-history) on an in-memory swamp of the in-process server; after each history all %d index requests (index in {KEY, CREATION_TIME, UPDATE_TIME, EXPIRATION_TIME, VALUE_INT32} x ASC/DESC x from {0,1,2,5} x limit {0,1,2} x 9 time windows for the time indexes) through GetByIndex and through GetByIndexStream without filters. Oracle (reference sort): members = records carrying the attribute (non-zero timestamp; an int32 value), sorted, restricted to [from,to), paged; the answer must have the expected sequence of sort values, every record must be a member with that sort value, no duplicates (records with equal sort values may come in any order). Non-trivial = histories after which at least two records exist", maxLen, len(syms), len(reqs))
	r.Assumptions = []string{"value indexes are requested only for VALUE_INT32 on swamps whose typed records are all int32 (plus void records, which do not carry the attribute)", "GetByIndexStream is called in-process with a recording stream"}
	var hists [][]int
	forEachSeq(len(syms), maxLen, func(idx int, seq []int) bool {
		hists = append(hists, append([]int(nil), seq...))
		return true
	})
	r.Parallel(16, "TestC07", func() {
		type out struct {
			disc, what, req string
			stream          bool
			n               int
			recs            int
			voids           int
		}
		results := make([][]out, len(hists))
		done := make([]bool, len(hists))
		want := func(i int) bool { return r.Mine(i) && !r.OutOfTime() }
		bad := rigBatch(len(hists), want, func(rg *rigT, i int) {
			swamp := fmt.Sprintf("mem/r/h%d", i)
			m := map[string]*c07rec{}
			for _, s := range hists[i] {
				syms[s].run(rg, swamp)
				syms[s].model(m)
			}
			seenDisc := map[string]bool{}
			n := 0
			if len(m) > 0 {
				for _, q := range reqs {
					req := &hydrapb.GetByIndexRequest{IslandID: 1, SwampName: swamp, IndexType: q.it, From: q.from, Limit: q.lim}
					sreq := &hydrapb.GetByIndexStreamRequest{IslandID: 1, SwampName: swamp, IndexType: q.it, From: q.from, Limit: q.lim}
					if q.desc {
						req.OrderType, sreq.OrderType = hydrapb.OrderType_DESC, hydrapb.OrderType_DESC
					}
					if q.ft != 0 {
						req.FromTime, sreq.FromTime = ts(q.ft), ts(q.ft)
					}
					if q.tt != 0 {
						req.ToTime, sreq.ToTime = ts(q.tt), ts(q.tt)
					}
					for pass := 0; pass < 2; pass++ {
						var ans []*hydrapb.Treasure
						var err error
						if pass == 0 {
							var resp *hydrapb.GetByIndexResponse
							resp, err = rg.gw.GetByIndex(bg, req)
							if resp != nil {
								ans = resp.Treasures
							}
						} else {
							fs := &fakeStream[hydrapb.GetByIndexStreamResponse]{}
							err = rg.gw.GetByIndexStream(sreq, fs)
							for _, x := range fs.sent {
								ans = append(ans, x.Treasure)
							}
						}
						n++
						var disc, what string
						if err != nil {
							disc, what = "error:"+errStr(err), err.Error()
						} else {
							disc, what = c07check(ans, m, q)
						}
						if disc != "" {
							full := fmt.Sprintf("%s:%s", strings.ToLower(strings.TrimPrefix(q.it.String(), "VALUE_")), disc)
							if !seenDisc[full] {
								seenDisc[full] = true
								nv := 0
								for _, rec := range m {
									if rec.void {
										nv++
									}
								}
								results[i] = append(results[i], out{full, what, q.String(), pass == 1, 0, len(m), nv})
							}
						}
					}
				}
			}
			results[i] = append(results[i], out{n: n, recs: len(m)})
			done[i] = true
			rg.destroy(swamp)
		})
		if r.OutOfTime() {
			r.NotExhaustive("time budget reached")
		}
		for i := range hists {
			var hn []string
			for _, s := range hists[i] {
				hn = append(hn, syms[s].name)
			}
			if x, ok := bad[i]; ok {
				r.Eval(1)
				r.Fail("index", "request-never-returns-or-panics", fmt.Sprintf("history %v: deadlock=%v panics=%v", hn, x.Deadlock, x.Panics), map[string]any{"history": hn})
				continue
			}
			if !done[i] {
				continue
			}
			for _, o := range results[i] {
				if o.disc == "" {
					r.Eval(o.n + 1)
					r.Count("index_requests", int64(o.n))
					if o.recs >= 2 {
						r.Nontrivial(fmt.Sprint(hists[i]))
					}
					r.Outcome(fmt.Sprint(o.recs))
					continue
				}
				api := "GetByIndex"
				if o.stream {
					api = "GetByIndexStream"
				}
				built := "cold"
				for _, s := range hists[i] {
					if syms[s].name == "ReadAllIndexes" {
						built = "after-index-built"
					}
				}
				if strings.HasPrefix(o.disc, "int32:") && o.voids > 0 {
					built += ":swamp-holds-a-record-without-int32-value"
				}
				r.Fail("index", o.disc+":"+built, fmt.Sprintf("history %v: %s %s: %s", hn, api, o.req, o.what), map[string]any{"history": hn, "request": o.req, "api": api})
			}
			if i == 40 {
				r.Sample(map[string]any{"history": hn, "requests": 2 * len(reqs)})
			}
		}
	})
}
