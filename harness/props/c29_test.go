package props

import (
	"encoding/binary"
	"fmt"
	"hash/crc32"
	"sort"
	"strings"
	"syscall"
	"testing"

	"github.com/golang/snappy"
	"github.com/hydraide/hydraide/app/core/hydra/swamp/chronicler"
	v2 "github.com/hydraide/hydraide/app/core/hydra/swamp/chronicler/v2"
	"github.com/hydraide/hydraide/app/core/hydra/swamp/treasure"
	"github.com/hydraide/hydraide/app/server/explorer"
	"github.com/hydraide/hydraide/app/vshim/vos"
	"verifharness/kit"
)

// C29 — fast swamp-name discovery agrees with the stored name.
// Files are produced by the real engine for every (name shape x file origin); ReadSwampName must return the writer's
// name; the explorer's listing of a data directory holding every subset of up to three such files plus decoys must
// contain exactly the swamps present.

type c29origin struct {
	name  string
	build func(path, swampName string) error // writes the file at path through the real engine
}

func c29treasures(n int, prefix string) []treasure.Treasure {
	var ts []treasure.Treasure
	for i := 0; i < n; i++ {
		ts = append(ts, mkTreasureAt(fmt.Sprintf("%s%d", prefix, i), fmt.Sprintf("v%d", i), false, false, ""))
	}
	return ts
}

// mkTreasureAt is mkTreasure with an explicit file pointer (empty = not yet persisted).
func mkTreasureAt(key, val string, persisted, deleted bool, file string) treasure.Treasure {
	return mkTreasure(key, val, persisted, deleted)
}

func c29chron(path, swampName string) chronicler.Chronicler {
	c := chronicler.NewV2WithName(strings.TrimSuffix(path, ".hyd"), 1, swampName)
	c.CreateDirectoryIfNotExists()
	return c
}

// handBuiltV2 writes a version-2 file (no name after the header) whose name lives in an OpMetadata entry at the given
// position among the entries (-1: no metadata entry at all).
func handBuiltV2(path, swampName string, metaPos int) error {
	vos.MkdirAll(path[:strings.LastIndex(path, "/")], 0755)
	h := v2.NewFileHeader()
	h.Version = 2
	h.NameLength = 0
	var entries []v2.Entry
	for i := 0; i < 3; i++ {
		entries = append(entries, v2.Entry{Operation: v2.OpInsert, Key: fmt.Sprintf("k%d", i), Data: []byte("x")})
	}
	if metaPos >= 0 {
		me := v2.Entry{Operation: v2.OpMetadata, Key: v2.MetadataEntryKey, Data: []byte(swampName)}
		entries = append(entries[:metaPos], append([]v2.Entry{me}, entries[metaPos:]...)...)
	}
	var raw []byte
	for _, e := range entries {
		raw = append(raw, e.Serialize()...)
	}
	comp := snappy.Encode(nil, raw)
	bh := v2.BlockHeader{CompressedSize: uint32(len(comp)), UncompressedSize: uint32(len(raw)), EntryCount: uint16(len(entries)), Checksum: crc32.ChecksumIEEE(comp)}
	h.BlockCount, h.EntryCount = 1, uint64(len(entries))
	hb := h.Serialize()
	binary.LittleEndian.PutUint16(hb[44:46], 0)
	buf := append(append(append([]byte{}, hb...), bh.Serialize()...), comp...)
	return vos.WriteFile(path, buf, 0644)
}

func c29origins() []c29origin {
	return []c29origin{
		{"fresh-v3", func(p, n string) error {
			c := c29chron(p, n)
			c.Write(c29treasures(3, "k"))
			return c.Close()
		}},
		{"v3-appended-in-3-sessions", func(p, n string) error {
			for s := 0; s < 3; s++ {
				c := c29chron(p, n)
				c.Write(c29treasures(2, fmt.Sprintf("s%d-", s)))
				if err := c.Close(); err != nil {
					return err
				}
			}
			return nil
		}},
		{"compacted-by-ForceCompaction", func(p, n string) error {
			c := c29chron(p, n)
			c.Write(c29treasures(3, "k"))
			c.Write(c29treasures(3, "k"))
			if fc, ok := c.(interface{ ForceCompaction() error }); ok {
				if err := fc.ForceCompaction(); err != nil {
					return err
				}
			}
			return c.Close()
		}},
		{"compacted-by-Compactor.Compact", func(p, n string) error {
			c := c29chron(p, n)
			c.Write(c29treasures(3, "k"))
			c.Write(c29treasures(3, "k"))
			if err := c.Close(); err != nil {
				return err
			}
			_, err := v2.NewCompactor(p, v2.DefaultMaxBlockSize, 0).Compact()
			return err
		}},
		{"compacted-by-CompactFromIndex", func(p, n string) error {
			c := c29chron(p, n)
			c.Write(c29treasures(3, "k"))
			if err := c.Close(); err != nil {
				return err
			}
			fr, err := v2.NewFileReader(p)
			if err != nil {
				return err
			}
			idx, name, err := fr.LoadIndex()
			fr.Close()
			if err != nil {
				return err
			}
			_, err = v2.CompactFromIndex(p, v2.DefaultMaxBlockSize, name, idx, 6)
			return err
		}},
		{"emptied-by-compaction-then-written-again-in-the-same-session", func(p, n string) error {
			c := c29chron(p, n)
			c.Write(c29treasures(3, "k"))
			var del []treasure.Treasure
			for i := 0; i < 3; i++ {
				del = append(del, mkTreasure(fmt.Sprintf("k%d", i), "", true, true))
			}
			c.Write(del)
			if fc, ok := c.(interface{ ForceCompaction() error }); ok {
				if err := fc.ForceCompaction(); err != nil {
					return err
				}
			}
			c.Write(c29treasures(2, "again"))
			return c.Close()
		}},
		{"emptied-by-compaction-then-written-again-in-a-new-session", func(p, n string) error {
			c := c29chron(p, n)
			c.Write(c29treasures(3, "k"))
			var del []treasure.Treasure
			for i := 0; i < 3; i++ {
				del = append(del, mkTreasure(fmt.Sprintf("k%d", i), "", true, true))
			}
			c.Write(del)
			if err := c.Close(); err != nil {
				return err
			}
			if _, err := v2.NewCompactor(p, v2.DefaultMaxBlockSize, 0).Compact(); err != nil {
				return err
			}
			c = c29chron(p, n)
			c.Write(c29treasures(2, "again"))
			return c.Close()
		}},
		{"process-died-before-the-first-block-then-written", func(p, n string) error {
			vos.MkdirAll(p[:strings.LastIndex(p, "/")], 0755)
			if _, err := v2.NewFileWriterWithName(p, v2.DefaultMaxBlockSize, n); err != nil { // header + name on disk, never closed
				return err
			}
			c := c29chron(p, n)
			c.Write(c29treasures(2, "late"))
			return c.Close()
		}},
		{"first-block-write-failed-then-written", func(p, n string) error {
			c := c29chron(p, n)
			fired := false
			vos.Fault = func(seq int, op *vos.Op) (error, int) {
				if !fired && op.Kind == vos.OpWrite && op.Off > 0 && strings.HasSuffix(op.Path, ".hyd") {
					fired = true
					return syscall.ENOSPC, len(op.Data) / 2
				}
				return nil, -1
			}
			c.Write(c29treasures(2, "lost"))
			if cs, ok := c.(interface{ Sync() error }); ok {
				cs.Sync()
			}
			vos.Fault = nil
			c.Write(c29treasures(2, "late"))
			return c.Close()
		}},
		{"hand-built-v2-metadata-first", func(p, n string) error { return handBuiltV2(p, n, 0) }},
		{"hand-built-v2-metadata-last", func(p, n string) error { return handBuiltV2(p, n, 3) }},
		{"v2-then-compacted (upgrade to v3)", func(p, n string) error {
			if err := handBuiltV2(p, n, 1); err != nil {
				return err
			}
			_, err := v2.NewCompactor(p, v2.DefaultMaxBlockSize, 0).Compact()
			return err
		}},
		{"v2-then-appended-by-the-engine", func(p, n string) error {
			if err := handBuiltV2(p, n, 0); err != nil {
				return err
			}
			c := c29chron(p, n)
			c.Write(c29treasures(2, "late"))
			return c.Close()
		}},
	}
}

func TestC29(t *testing.T) {
	quietLogs()
	r := kit.Start("C29", "exploration")
	defer r.Finish()
	names := []string{"a/b/c", "sánct/réalm/swåmp-ü", "s/" + strings.Repeat("r", 255) + "/w", "long/" + strings.Repeat("x", 65535-7) + "/w", "long/" + strings.Repeat("x", 65536-7) + "/w", "x/y/z with space"}
	if !r.Quick() {
		names = append(names, "a/b/c/d", strings.Repeat("é", 100)+"/r/w")
	}
	origins := c29origins()
	var on []string
	for _, o := range origins {
		on = append(on, o.name)
	}
	r.Extra["origins"] = on
	r.Rule = fmt.Sprintf("%d name shapes (plain, UTF-8, a 255-byte part, names of 65535 and 65536 bytes, a name with a space%s) x %d file origins written by the real engine on the in-memory file system (fresh V3; V3 appended over three sessions; emptied by compaction and written again in the same / a new session; header written but the process died before the first block, then written; first block write failed (short write), then written; compacted through ForceCompaction, Compactor.Compact and CompactFromIndex; hand-built V2 files with the name in an OpMetadata entry first / last; V2 upgraded by compaction; V2 appended by the engine); oracle 1: ReadSwampName(file) = the name the writer was given, and the file still loads. Then a data directory holding EVERY subset of up to three of the files (distinct names) plus decoys (a leftover .compact temp, a non-.hyd file, a legacy V1 folder, a zero-byte .hyd file, a V2 file without any name entry) is scanned by the real explorer under the controlled scheduler; oracle 2: the listing contains exactly the swamps present. Non-trivial = files whose name is not stored right after the header (V2 origins) or that went through compaction", len(names), map[bool]string{true: "", false: ", a four-part name, 100 two-byte characters"}[r.Quick()], len(origins))
	r.Assumptions = []string{"a swamp whose name the engine rejects at write time (too long to encode) does not have to be discoverable, but the write must fail instead of producing a file with another name"}
	var files []c29built
	for ni, n := range names {
		for oi, o := range origins {
			vos.UseMem()
			path := fmt.Sprintf("/h/data/1/ab/f%d_%d.hyd", ni, oi)
			err := o.build(path, n)
			r.Eval(1)
			if strings.Contains(o.name, "v2") || strings.Contains(o.name, "compacted") {
				r.Nontrivial(fmt.Sprintf("%d/%d", ni, oi))
			}
			cs := map[string]any{"name_length": len(n), "name_prefix": short(n), "origin": o.name}
			if err != nil {
				// rejecting a name the format cannot hold is fine; anything else is not
				if len(n) > 65535 {
					r.Count("writes_rejected_for_unencodable_name", 1)
					r.Outcome("rejected")
					continue
				}
				r.Fail("name", "write-fails:"+o.name, fmt.Sprintf("origin %s with a %d-byte name: the engine reports %v", o.name, len(n), err), cs)
				continue
			}
			if _, serr := vos.Stat(path); serr != nil && len(n) > 65535 {
				// the engine refused to create a file for a name it cannot encode: nothing to discover
				r.Count("writes_rejected_for_unencodable_name", 1)
				r.Outcome("rejected")
				continue
			}
			got, rerr := v2.ReadSwampName(path)
			r.Outcome(fmt.Sprintf("%v/%v", rerr == nil, got == n))
			switch {
			case rerr != nil:
				r.Fail("name", classLen(n)+":ReadSwampName-fails:"+o.name, fmt.Sprintf("origin %s, %d-byte name: ReadSwampName: %v", o.name, len(n), rerr), cs)
			case got != n:
				r.Fail("name", classLen(n)+":wrong-name:"+o.name, fmt.Sprintf("origin %s: stored name %s (%d bytes) is discovered as %s (%d bytes)", o.name, short(n), len(n), short(got), len(got)), cs)
			default:
				// the records must still load
				fr, err := v2.NewFileReader(path)
				if err == nil {
					idx, nm, lerr := fr.LoadIndex()
					fr.Close()
					if lerr != nil || len(idx) == 0 || (nm != n && nm != "") {
						r.Fail("name", classLen(n)+":file-does-not-load:"+o.name, fmt.Sprintf("origin %s, %d-byte name: LoadIndex gives %d records, name %s, err %v", o.name, len(n), len(idx), short(nm), lerr), cs)
					}
				}
				b, _ := vos.FS().FileBytes(path)
				if len(n) < 1000 {
					files = append(files, c29built{n, o.name, append([]byte(nil), b...), true})
				}
			}
		}
	}
	// ---- explorer listing ----
	// one file per (short name, origin) pair, renamed so that all names are distinct
	// rebuild the pool files with their distinct names (the name is inside the file)
	var pool2 []c29built
	for oi, o := range origins {
		for ni, base := range []string{"alpha/r/one", "alpha/r/two", "béta/q/three"} {
			vos.UseMem()
			path := "/h/data/1/x.hyd"
			n := fmt.Sprintf("%s-%d", base, oi)
			if err := o.build(path, n); err != nil {
				continue
			}
			b, _ := vos.FS().FileBytes(path)
			pool2 = append(pool2, c29built{n, o.name, append([]byte(nil), b...), true})
			_ = ni
		}
	}
	subsets := 0
	var v1folder = "/h/data/3/cd/legacyswamp"
	for i := 0; i < len(pool2); i++ {
		for j := i; j < len(pool2); j++ {
			for k := j; k < len(pool2); k++ {
				if r.Quick() && (i+j+k)%3 != 0 && !(i == j && j == k) {
					continue // quick tier: every single file, and a third of the pairs/triples
				}
				if r.OutOfTime() {
					r.NotExhaustive("time budget reached in the explorer part")
					i, j = len(pool2), len(pool2)
					break
				}
				sel := map[int]bool{i: true, j: true, k: true}
				vos.UseMem()
				want := map[string]bool{}
				for idx := range sel {
					f := pool2[idx]
					p := fmt.Sprintf("/h/data/%d/ab/%02d/file%d.hyd", 1+idx%3, idx, idx)
					vos.MkdirAll(p[:strings.LastIndex(p, "/")], 0755)
					vos.WriteFile(p, f.bytes, 0644)
					want[f.name] = true
				}
				// decoys
				vos.WriteFile("/h/data/1/ab/00/file0.hyd.compact", pool2[0].bytes, 0644)
				vos.WriteFile("/h/data/1/ab/notes.txt", []byte("hello"), 0644)
				vos.MkdirAll(v1folder, 0755)
				vos.WriteFile(v1folder+"/0", []byte("legacy chunk"), 0644)
				vos.WriteFile(v1folder+"/meta", []byte("legacy meta"), 0644)
				vos.WriteFile("/h/data/2/empty.hyd", nil, 0644)
				handBuiltV2("/h/data/2/noname.hyd", "", -1)
				got := map[string]bool{}
				var scanErr error
				x := seqRun(func() {
					ex := explorer.New("/h/data")
					scanErr = ex.Scan(bg)
					for _, d := range ex.ListAllSwamps("", "") {
						got[d.Sanctuary+"/"+d.Realm+"/"+d.Swamp] = true
					}
					if len(got) == 0 {
						for _, s := range ex.ListSanctuaries() {
							for _, rl := range ex.ListRealms(s.Name) {
								for _, d := range ex.ListAllSwamps(s.Name, rl.Name) {
									got[d.Sanctuary+"/"+d.Realm+"/"+d.Swamp] = true
								}
							}
						}
					}
				})
				subsets++
				r.Eval(1)
				cs := map[string]any{"files": keysSorted(want), "listing": keysSorted(got)}
				if x.Deadlock || len(x.Panics) > 0 || scanErr != nil {
					r.Fail("explorer", "scan-fails", fmt.Sprintf("scan of %v: deadlock=%v panics=%v err=%v", keysSorted(want), x.Deadlock, x.Panics, scanErr), cs)
					continue
				}
				if fmt.Sprint(keysSorted(want)) != fmt.Sprint(keysSorted(got)) {
					d := "listing-differs"
					for n := range want {
						if !got[n] {
							d = "swamp-missing-from-listing:" + originOf(pool2, n)
						}
					}
					for n := range got {
						if !want[n] {
							d = "listing-contains-a-swamp-that-is-not-there"
						}
					}
					r.Fail("explorer", d, fmt.Sprintf("data directory holds %v (+ decoys); the explorer lists %v", keysSorted(want), keysSorted(got)), cs)
				}
			}
		}
	}
	r.Extra["explorer_directories_scanned"] = subsets
	r.Sample(map[string]any{"names": len(names), "origins": on, "explorer_pool": len(pool2)})
}

func classLen(n string) string {
	if len(n) > 65535 {
		return "name>65535B"
	}
	if len(n) > 1000 {
		return "name-65535B"
	}
	return "short-name"
}

func keysSorted(m map[string]bool) []string {
	var ks []string
	for k := range m {
		ks = append(ks, k)
	}
	sort.Strings(ks)
	return ks
}

type c29built struct {
	name, origin string
	bytes        []byte
	ok           bool
}

func originOf(pool []c29built, n string) string {
	for _, f := range pool {
		if f.name == n {
			return f.origin
		}
	}
	return "?"
}
