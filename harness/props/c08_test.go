package props

import (
	"fmt"
	"sort"
	"strings"
	"testing"

	hydrapb "github.com/hydraide/hydraide/sdk/go/hydraidego/v3/hydraidepbgo"
	"github.com/vmihailenco/msgpack/v5"
	"google.golang.org/protobuf/proto"
	"verifharness/kit"
)

// C08 — accelerated and full-scan query routes agree.
// Differential check with no hand-written expectation: every query is answered twice by the real GetByIndexStream
// handler - once as given (the planner may route it through the auto-built field index) and once wrapped as
// OR{SubGroups:[filter]}, which the planner never accelerates (a sub-group under OR forces the beacon walk) and
// which selects the same records by the filter semantics. The two answers must be the same records in the same
// order (up to ties on the sort key) with the same match labels.

type c08rec struct {
	key  string
	body map[string]any
	c, u int64 // created / updated seconds
	e    int64 // expiry seconds, 0 = none
}

func c08records() []c08rec {
	return []c08rec{
		{"r1", map[string]any{"s": "x", "n": int8(5), "b": true, "t": []string{"a", "b"}, "m": map[string]any{"k": "v"}}, 10, 110, 1010},
		{"r2", map[string]any{"s": "y", "n": int64(5), "b": false, "t": []string{"b"}, "m": map[string]any{"k": "w"}}, 20, 120, 1020},
		{"r3", map[string]any{"s": "x", "n": uint8(5), "t": []string{}}, 30, 130, 0},
		{"r4", map[string]any{"s": "x", "n": float64(5), "b": true}, 40, 140, 1040},
		{"r5", map[string]any{"s": "z", "n": float64(5.5), "m": map[string]any{"k": "v"}}, 50, 150, 1050},
		{"r6", map[string]any{"s": nil, "n": "5"}, 60, 160, 0},
		{"r7", map[string]any{}, 70, 170, 1070},
		{"r8", map[string]any{"s": "x", "n": int32(7), "t": []string{"a"}, "m": map[string]any{"k": int8(7)}}, 80, 180, 1080},
	}
}

func c08set(rg *rigT, sw string, r c08rec) {
	kv := &hydrapb.KeyValuePair{Key: r.key, BytesVal: append([]byte{0xC7, 0x00}, mp(r.body)...), CreatedAt: ts(1767225600 + r.c), UpdatedAt: ts(1767225600 + r.u)}
	if r.e != 0 {
		kv.ExpiredAt = ts(1767225600 + r.e)
	}
	rg.gw.Set(bg, &hydrapb.SetRequest{Swamps: []*hydrapb.SwampRequest{{IslandID: 1, SwampName: sw, CreateIfNotExist: true, Overwrite: true, KeyValues: []*hydrapb.KeyValuePair{kv}}}})
}

type c08filter struct {
	name string
	g    *hydrapb.FilterGroup
}

func c08leg(op hydrapb.Relational_Operator, path string, label string, set func(f *hydrapb.TreasureFilter)) *hydrapb.TreasureFilter {
	f := &hydrapb.TreasureFilter{Operator: op, BytesFieldPath: p(path)}
	if label != "" {
		f.Label = p(label)
	}
	if set != nil {
		set(f)
	}
	return f
}

func c08filters() []c08filter {
	eq := hydrapb.Relational_EQUAL
	sv := func(s string) func(*hydrapb.TreasureFilter) {
		return func(f *hydrapb.TreasureFilter) { f.CompareValue = &hydrapb.TreasureFilter_StringVal{StringVal: s} }
	}
	and := func(legs ...*hydrapb.TreasureFilter) *hydrapb.FilterGroup {
		return &hydrapb.FilterGroup{Logic: hydrapb.FilterLogic_AND, Filters: legs}
	}
	or := func(legs ...*hydrapb.TreasureFilter) *hydrapb.FilterGroup {
		return &hydrapb.FilterGroup{Logic: hydrapb.FilterLogic_OR, Filters: legs}
	}
	var out []c08filter
	add := func(n string, g *hydrapb.FilterGroup) { out = append(out, c08filter{n, g}) }
	// single indexable legs: string / every numeric compare-value kind / bool / IN lists / path syntaxes
	add("s=x", and(c08leg(eq, "s", "", sv("x"))))
	add("s=x[label]", and(c08leg(eq, "s", "L1", sv("x"))))
	add("s=absent", and(c08leg(eq, "s", "", sv("nope"))))
	nums := []struct {
		n   string
		set func(*hydrapb.TreasureFilter)
	}{
		{"int8:5", func(f *hydrapb.TreasureFilter) { f.CompareValue = &hydrapb.TreasureFilter_Int8Val{Int8Val: 5} }},
		{"int32:5", func(f *hydrapb.TreasureFilter) { f.CompareValue = &hydrapb.TreasureFilter_Int32Val{Int32Val: 5} }},
		{"int64:5", func(f *hydrapb.TreasureFilter) { f.CompareValue = &hydrapb.TreasureFilter_Int64Val{Int64Val: 5} }},
		{"uint8:5", func(f *hydrapb.TreasureFilter) { f.CompareValue = &hydrapb.TreasureFilter_Uint8Val{Uint8Val: 5} }},
		{"uint64:5", func(f *hydrapb.TreasureFilter) { f.CompareValue = &hydrapb.TreasureFilter_Uint64Val{Uint64Val: 5} }},
		{"float32:5", func(f *hydrapb.TreasureFilter) { f.CompareValue = &hydrapb.TreasureFilter_Float32Val{Float32Val: 5} }},
		{"float64:5", func(f *hydrapb.TreasureFilter) { f.CompareValue = &hydrapb.TreasureFilter_Float64Val{Float64Val: 5} }},
		{"float64:5.5", func(f *hydrapb.TreasureFilter) { f.CompareValue = &hydrapb.TreasureFilter_Float64Val{Float64Val: 5.5} }},
		{"int32:7", func(f *hydrapb.TreasureFilter) { f.CompareValue = &hydrapb.TreasureFilter_Int32Val{Int32Val: 7} }},
		{"string:5", sv("5")},
	}
	for _, nv := range nums {
		add("n="+nv.n, and(c08leg(eq, "n", "", nv.set)))
	}
	add("b=true", and(c08leg(eq, "b", "", func(f *hydrapb.TreasureFilter) {
		f.CompareValue = &hydrapb.TreasureFilter_BoolVal{BoolVal: hydrapb.Boolean_TRUE}
	})))
	add("b=false", and(c08leg(eq, "b", "", func(f *hydrapb.TreasureFilter) {
		f.CompareValue = &hydrapb.TreasureFilter_BoolVal{BoolVal: hydrapb.Boolean_FALSE}
	})))
	add("s IN {x,y}", and(c08leg(hydrapb.Relational_STRING_IN, "s", "", func(f *hydrapb.TreasureFilter) { f.StringInVals = []string{"x", "y"} })))
	add("n IN32 {5,7}", and(c08leg(hydrapb.Relational_INT32_IN, "n", "", func(f *hydrapb.TreasureFilter) { f.Int32InVals = []int32{5, 7} })))
	add("n IN64 {7}", and(c08leg(hydrapb.Relational_INT64_IN, "n", "", func(f *hydrapb.TreasureFilter) { f.Int64InVals = []int64{7} })))
	add("m.k=v", and(c08leg(eq, "m.k", "", sv("v"))))
	add("m.k=int8:7", and(c08leg(eq, "m.k", "", func(f *hydrapb.TreasureFilter) { f.CompareValue = &hydrapb.TreasureFilter_Int8Val{Int8Val: 7} })))
	add("t[*]=a", and(c08leg(eq, "t[*]", "", sv("a"))))
	add("t[0]=a", and(c08leg(eq, "t[0]", "", sv("a"))))
	add("t#len=int32:1", and(c08leg(eq, "t#len", "", func(f *hydrapb.TreasureFilter) { f.CompareValue = &hydrapb.TreasureFilter_Int32Val{Int32Val: 1} })))
	add("t.#len=int32:2", and(c08leg(eq, "t.#len", "", func(f *hydrapb.TreasureFilter) { f.CompareValue = &hydrapb.TreasureFilter_Int32Val{Int32Val: 2} })))
	// indexable leg + residual legs, with labels on both
	ne := c08leg(hydrapb.Relational_NOT_EQUAL, "m.k", "R", sv("w"))
	gt := c08leg(hydrapb.Relational_GREATER_THAN, "n", "G", func(f *hydrapb.TreasureFilter) { f.CompareValue = &hydrapb.TreasureFilter_Int32Val{Int32Val: 4} })
	add("s=x[L1] AND m.k!=w[R]", and(c08leg(eq, "s", "L1", sv("x")), ne))
	add("n>4[G] AND s=x[L1]", and(gt, c08leg(eq, "s", "L1", sv("x"))))
	add("s=x AND b=true", and(c08leg(eq, "s", "", sv("x")), c08leg(eq, "b", "", func(f *hydrapb.TreasureFilter) {
		f.CompareValue = &hydrapb.TreasureFilter_BoolVal{BoolVal: hydrapb.Boolean_TRUE}
	})))
	add("s=x AND IS_EMPTY(b)", and(c08leg(eq, "s", "", sv("x")), c08leg(hydrapb.Relational_IS_EMPTY, "b", "", nil)))
	// OR unions
	add("s=y[A] OR m.k=v[B]", or(c08leg(eq, "s", "A", sv("y")), c08leg(eq, "m.k", "B", sv("v"))))
	add("s=x OR s=x", or(c08leg(eq, "s", "", sv("x")), c08leg(eq, "s", "", sv("x"))))
	add("n=int32:5 OR n=float64:5.5", or(c08leg(eq, "n", "", nums[1].set), c08leg(eq, "n", "", nums[7].set)))
	// AND with an OR sub-group (sub-group collapses to a union)
	add("(s=y OR s=z) AND n>4", &hydrapb.FilterGroup{Logic: hydrapb.FilterLogic_AND, Filters: []*hydrapb.TreasureFilter{gt}, SubGroups: []*hydrapb.FilterGroup{or(c08leg(eq, "s", "A", sv("y")), c08leg(eq, "s", "B", sv("z")))}})
	return out
}

type c08query struct {
	it          hydrapb.IndexType_Type
	desc        bool
	from, limit int32
	max         int32
	ft, tt      int64
	include     []string
	exclude     []string
}

func (q c08query) String() string {
	o := "ASC"
	if q.desc {
		o = "DESC"
	}
	s := fmt.Sprintf("%s %s from=%d limit=%d max=%d", q.it, o, q.from, q.limit, q.max)
	if q.ft != 0 || q.tt != 0 {
		s += fmt.Sprintf(" window=[%d,%d)", q.ft, q.tt)
	}
	if q.include != nil {
		s += fmt.Sprintf(" include=%v", q.include)
	}
	if q.exclude != nil {
		s += fmt.Sprintf(" exclude=%v", q.exclude)
	}
	return s
}

type c08mut struct {
	name string
	run  func(rg *rigT, sw string)
}

func c08ask(rg *rigT, sw string, q c08query, g *hydrapb.FilterGroup) (string, error) {
	req := &hydrapb.GetByIndexStreamRequest{IslandID: 1, SwampName: sw, IndexType: q.it, From: q.from, Limit: q.limit, MaxResults: q.max, Filters: g, IncludedKeys: q.include, ExcludeKeys: q.exclude}
	if q.desc {
		req.OrderType = hydrapb.OrderType_DESC
	}
	if q.ft != 0 {
		req.FromTime = ts(1767225600 + q.ft)
	}
	if q.tt != 0 {
		req.ToTime = ts(1767225600 + q.tt)
	}
	fs := &fakeStream[hydrapb.GetByIndexStreamResponse]{}
	if err := rg.gw.GetByIndexStream(req, fs); err != nil {
		return "", err
	}
	var out []string
	for _, x := range fs.sent {
		labels := ""
		if x.Meta != nil {
			l := append([]string(nil), x.Meta.MatchedLabels...)
			sort.Strings(l)
			labels = "{" + strings.Join(l, ",") + "}"
		}
		body := ""
		if len(x.Treasure.BytesVal) > 2 {
			var m map[string]any
			if msgpack.Unmarshal(x.Treasure.BytesVal[2:], &m) == nil {
				ks := make([]string, 0, len(m))
				for k, v := range m {
					ks = append(ks, fmt.Sprintf("%s=%v", k, v))
				}
				sort.Strings(ks)
				body = "<" + strings.Join(ks, ";") + ">"
			}
		} else if x.Treasure.Int32Val != nil {
			body = fmt.Sprintf("<i32:%d>", *x.Treasure.Int32Val)
		}
		out = append(out, x.Treasure.Key+body+labels)
	}
	return strings.Join(out, " "), nil
}

func TestC08(t *testing.T) {
	quietLogs()
	rigSetup()
	r := kit.Start("C08", "exploration")
	defer r.Finish()
	filters := c08filters()
	var queries []c08query
	its := []hydrapb.IndexType_Type{hydrapb.IndexType_CREATION_TIME, hydrapb.IndexType_KEY, hydrapb.IndexType_UPDATE_TIME, hydrapb.IndexType_EXPIRATION_TIME}
	for _, it := range its {
		for _, desc := range []bool{false, true} {
			queries = append(queries, c08query{it: it, desc: desc})
			for _, fl := range [][2]int32{{1, 0}, {0, 2}, {1, 2}, {0, 1}, {3, 1}} {
				queries = append(queries, c08query{it: it, desc: desc, from: fl[0], limit: fl[1]})
			}
			queries = append(queries, c08query{it: it, desc: desc, max: 1}, c08query{it: it, desc: desc, max: 2, from: 1})
			if it != hydrapb.IndexType_KEY {
				base := map[hydrapb.IndexType_Type]int64{hydrapb.IndexType_CREATION_TIME: 0, hydrapb.IndexType_UPDATE_TIME: 100, hydrapb.IndexType_EXPIRATION_TIME: 1000}[it]
				queries = append(queries, c08query{it: it, desc: desc, ft: base + 20, tt: base + 50}, c08query{it: it, desc: desc, ft: base + 40}, c08query{it: it, desc: desc, tt: base + 40, limit: 1})
			}
		}
	}
	queries = append(queries, c08query{it: hydrapb.IndexType_CREATION_TIME, include: []string{"r1", "r4", "r8"}}, c08query{it: hydrapb.IndexType_CREATION_TIME, exclude: []string{"r1"}, limit: 2})
	muts := []c08mut{
		{"none", func(rg *rigT, sw string) {}},
		{"Set(r3: s->y, n->int8 7)", func(rg *rigT, sw string) {
			c08set(rg, sw, c08rec{"r3", map[string]any{"s": "y", "n": int8(7), "t": []string{"a"}}, 30, 190, 0})
		}},
		{"Delete(r1)", func(rg *rigT, sw string) {
			rg.gw.Delete(bg, &hydrapb.DeleteRequest{Swamps: []*hydrapb.DeleteRequest_SwampKeys{{IslandID: 1, SwampName: sw, Keys: []string{"r1"}}}})
		}},
		{"Set(new r9: s=x n=float64 5)", func(rg *rigT, sw string) {
			c08set(rg, sw, c08rec{"r9", map[string]any{"s": "x", "n": float64(5), "b": true, "m": map[string]any{"k": "v"}}, 90, 195, 1090})
		}},
		{"Patch(r2: SET s=x, DELETE n)", func(rg *rigT, sw string) {
			rg.gw.PatchTreasures(bg, &hydrapb.PatchTreasuresRequest{IslandID: 1, SwampName: sw, Patches: []*hydrapb.TreasurePatch{{Key: "r2", Ops: []*hydrapb.PatchOp{
				{Op: hydrapb.PatchOp_SET, Path: "s", Value: mp("x")}, {Op: hydrapb.PatchOp_DELETE, Path: "n"}}}}})
		}},
		{"Patch(r4: SET m.k=w, b=false; s and n unchanged)", func(rg *rigT, sw string) {
			rg.gw.PatchTreasures(bg, &hydrapb.PatchTreasuresRequest{IslandID: 1, SwampName: sw, Patches: []*hydrapb.TreasurePatch{{Key: "r4", Ops: []*hydrapb.PatchOp{
				{Op: hydrapb.PatchOp_SET, Path: "m.k", Value: mp("w")}, {Op: hydrapb.PatchOp_SET, Path: "b", Value: mp(false)}}}}})
		}},
		{"Set(r8: body replaced by an int32 value)", func(rg *rigT, sw string) {
			rg.gw.Set(bg, &hydrapb.SetRequest{Swamps: []*hydrapb.SwampRequest{{IslandID: 1, SwampName: sw, CreateIfNotExist: true, Overwrite: true, KeyValues: []*hydrapb.KeyValuePair{{Key: "r8", Int32Val: p(int32(7))}}}}})
		}},
	}
	var fn, mn []string
	for _, f := range filters {
		fn = append(fn, f.name)
	}
	for _, m := range muts {
		mn = append(mn, m.name)
	}
	type item struct{ f, q, m, phase, m2 int }
	var items []item
	for fi := range filters {
		for mi := range muts {
			for ph := 0; ph < 2; ph++ { // 0: mutation before the index is built, 1: after
				if mi == 0 && ph == 1 {
					continue
				}
				items = append(items, item{fi, -1, mi, ph, -1})
				if !r.Quick() && mi != 0 {
					// thorough: a second mutation after the first (always with the index built in between)
					for m2 := 1; m2 < len(muts); m2++ {
						items = append(items, item{fi, -1, mi, ph, m2})
					}
				}
			}
		}
	}
	r.Extra["filters"], r.Extra["mutations"], r.Extra["queries_per_item"] = fn, mn, len(queries)
	r.Rule = fmt.Sprintf("swamp of 8 records with MessagePack bodies (s: strings and nil; n: the value 5 as int8/int64/uint8/float64, 5.5, the string \"5\", int32 7; b: bool or missing; t: string arrays incl. empty; m.k: string or int8; one empty body; distinct created/updated times, two records without expiry) on the in-process server; %d filter trees (single Equal legs over every compare-value kind incl. float-vs-integer, bool, STRING_IN/INT32_IN/INT64_IN, nested path m.k, wildcard t[*], index t[0], t#len and t.#len; an indexable leg AND residual legs with labels on both; OR unions with labels; AND with an OR sub-group) x %d mutations (none; Set changing the indexed fields; Delete; Set of a new record; Patch SET+DELETE of indexed fields; Set replacing the body by a typed value) applied before the field index is built or after it was built by a first query (thorough: followed by every second mutation) x %d paging/ordering requests (4 index types x ASC/DESC x From/Limit combinations, MaxResults, time windows, IncludedKeys/ExcludeKeys). Each request is answered twice by the real GetByIndexStream: as given, and wrapped as OR{SubGroups:[filter]} which the planner never accelerates. Oracle: same records with the same content (every streamed body is compared field by field), same order (records with equal sort key may swap), same match labels. Non-trivial = requests whose scan answer is non-empty", len(filters), len(muts), len(queries))
	r.Assumptions = []string{"the wrapped filter selects the same records by the filter semantics (an OR over one sub-group); the scan route is the reference", "single client"}
	r.Parallel(16, "TestC08", func() {
		type res struct {
			diffs []string // "query|accel|scan"
			n, nt int
		}
		out := make([]*res, len(items))
		want := func(i int) bool { return r.Mine(i) && !r.OutOfTime() }
		bad := rigBatch(len(items), want, func(rg *rigT, i int) {
			it := items[i]
			sw := fmt.Sprintf("mem/c08/s%d", i)
			for _, rec := range c08records() {
				c08set(rg, sw, rec)
			}
			f := filters[it.f]
			if it.phase == 1 {
				c08ask(rg, sw, queries[0], f.g) // builds the field index of the indexed leg
			}
			muts[it.m].run(rg, sw)
			if it.m2 >= 0 {
				c08ask(rg, sw, queries[0], f.g)
				muts[it.m2].run(rg, sw)
			}
			o := &res{}
			out[i] = o
			wrapped := &hydrapb.FilterGroup{Logic: hydrapb.FilterLogic_OR, SubGroups: []*hydrapb.FilterGroup{proto.Clone(f.g).(*hydrapb.FilterGroup)}}
			for _, q := range queries {
				a, errA := c08ask(rg, sw, q, f.g)
				s, errS := c08ask(rg, sw, q, wrapped)
				o.n++
				if s != "" {
					o.nt++
				}
				if errA != nil || errS != nil {
					if (errA == nil) != (errS == nil) {
						o.diffs = append(o.diffs, fmt.Sprintf("%s|error:%v|error:%v", q, errA, errS))
					}
					continue
				}
				if a != s && !c08sameUpToTies(a, s, q) {
					o.diffs = append(o.diffs, fmt.Sprintf("%s|%s|%s", q, a, s))
				}
			}
			rg.destroy(sw)
		})
		for i, it := range items {
			f := filters[it.f]
			ph := []string{"before-index-built", "after-index-built"}[it.phase]
			cs := map[string]any{"filter": f.name, "mutation": muts[it.m].name, "mutation_phase": ph}
			if it.m2 >= 0 {
				cs["second_mutation"] = muts[it.m2].name
			}
			if x, ok := bad[i]; ok {
				r.Eval(1)
				r.Fail("routes", "query-never-returns-or-panics", fmt.Sprintf("filter %s, mutation %s (%s): deadlock=%v panics=%v", f.name, muts[it.m].name, ph, x.Deadlock, x.Panics), cs)
				continue
			}
			o := out[i]
			if o == nil {
				continue
			}
			r.Eval(o.n)
			for k := 0; k < o.nt; k++ {
				r.Nontrivial(fmt.Sprintf("%d/%d", i, k))
			}
			r.Outcome(fmt.Sprintf("%s/%d-differences", f.name, len(o.diffs)))
			seen := map[string]bool{}
			for _, d := range o.diffs {
				p := strings.SplitN(d, "|", 3)
				q := p[0]
				kind := "records-differ"
				strip := func(s string) string {
					var ks []string
					for _, w := range strings.Fields(s) {
						if j := strings.IndexAny(w, "{<"); j >= 0 {
							w = w[:j]
						}
						ks = append(ks, w)
					}
					return strings.Join(ks, " ")
				}
				if strip(p[1]) == strip(p[2]) {
					kind = "labels-differ"
					dropLabels := func(s string) string {
						var ks []string
						for _, w := range strings.Fields(s) {
							if j := strings.Index(w, "{"); j >= 0 {
								w = w[:j]
							}
							ks = append(ks, w)
						}
						return strings.Join(ks, " ")
					}
					if dropLabels(p[1]) != dropLabels(p[2]) {
						kind = "record-content-differs"
					}
				} else if strings.Contains(q, "from=0 limit=0") {
					kind = "records-differ-unpaged"
				} else {
					kind = "records-differ-paged"
				}
				mutk := "static"
				if it.m != 0 {
					mutk = "mutated-" + ph
				}
				sig := fmt.Sprintf("%s:%s:%s", kind, f.name, mutk)
				if seen[sig] {
					continue
				}
				seen[sig] = true
				c2 := map[string]any{"filter": f.name, "mutation": muts[it.m].name, "mutation_phase": ph, "request": q, "accelerated_answer": p[1], "scan_answer": p[2]}
				r.Fail("routes", sig, fmt.Sprintf("filter %s, mutation %s (%s), request %s: as given the server answers [%s]; forced onto the scan route [%s]", f.name, muts[it.m].name, ph, q, p[1], p[2]), c2)
			}
			if i == 10 {
				r.Sample(cs)
			}
		}
	})
}

// c08sameUpToTies: the same multiset of answers, and positions may differ only among records whose sort key is equal
// (none of the generated records share a sort key except records without expiry under EXPIRATION_TIME).
func c08sameUpToTies(a, s string, q c08query) bool {
	if q.it != hydrapb.IndexType_EXPIRATION_TIME {
		return false
	}
	x, y := strings.Fields(a), strings.Fields(s)
	if len(x) != len(y) {
		return false
	}
	sort.Strings(x)
	sort.Strings(y)
	return strings.Join(x, " ") == strings.Join(y, " ") && q.limit == 0 && q.from == 0 && q.max == 0
}
