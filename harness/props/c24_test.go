package props

import (
	"bytes"
	"fmt"
	"os"
	"strings"
	"testing"

	"github.com/hydraide/hydraide/app/core/compressor"
	"verifharness/kit"
)

// C24 — compression round-trips and never hides corruption.
// Enumerated: inputs × 4 algorithms × every truncation / single-byte substitution / adjacent swap of the compressed form.
func TestC24(t *testing.T) {
	r := kit.Start("C24", "exploration")
	defer r.Finish()
	r.Rule = "inputs = all byte strings of length<=3 over {00,01,'a',FF} + {1KiB zeros, 1KiB counter, 70000B repetitive}; for each of Gzip/LZ4/Snappy/Zstd: round trip; results-are-values (every ordered pair A,B of the inputs of length <= 2: Compress(A), Compress(B) on the same and on a second compressor object, then the first result must be byte-identical to the copy taken when it was returned and still decompress to A; the same for Decompress results); then every truncation, every single-byte substitution (quick: 7 boundary values per offset, thorough: all 255) and every adjacent-pair swap of the compressed form (quick: lz4 and zstd, at ~3 ms per call because of large buffer allocations, see every 8th of the 3-byte inputs and one large input; lz4 also only 2 substitution values per offset); non-trivial = a corrupted form whose bytes differ from the pristine compressed form (distinct by algo+input+mutation)"
	r.Assumptions = []string{"corruptions are limited to truncation, one substituted byte, or one adjacent swap per compressed form", "third-party codecs are exercised only through compressor.Compressor"}
	algos := []struct {
		n string
		t compressor.Type
	}{{"gzip", compressor.Gzip}, {"lz4", compressor.LZ4}, {"snappy", compressor.Snappy}, {"zstd", compressor.Zstd}}

	var inputs [][]byte
	alpha := []byte{0x00, 0x01, 'a', 0xFF}
	inputs = append(inputs, []byte{})
	for l := 1; l <= 3; l++ {
		idx := make([]int, l)
		for {
			b := make([]byte, l)
			for i, x := range idx {
				b[i] = alpha[x]
			}
			inputs = append(inputs, b)
			k := l - 1
			for k >= 0 {
				idx[k]++
				if idx[k] < len(alpha) {
					break
				}
				idx[k] = 0
				k--
			}
			if k < 0 {
				break
			}
		}
	}
	zeros := make([]byte, 1024)
	counter := make([]byte, 1024)
	for i := range counter {
		counter[i] = byte(i)
	}
	rep := bytes.Repeat([]byte("hydraide-"), 70000/9+1)[:70000]
	inputs = append(inputs, zeros, counter, rep)

	subs := func(b byte) []byte {
		if !r.Quick() {
			out := make([]byte, 0, 255)
			for v := 0; v < 256; v++ {
				if byte(v) != b {
					out = append(out, byte(v))
				}
			}
			return out
		}
		cand := []byte{0x00, 0x01, 0x7F, 0x80, 0xFF, b ^ 1, b ^ 0x80}
		var out []byte
		for _, c := range cand {
			if c != b && bytes.IndexByte(out, c) < 0 {
				out = append(out, c)
			}
		}
		return out
	}

	r.Parallel(16, "TestC24", func() {
		// Results are values, not views: a compressed (or decompressed) result the caller still holds must not be
		// changed by a later call on the same or another compressor object. Every ordered pair of the small inputs:
		// ca = Compress(A); cb = Compress(B); then ca must still decompress to A (and be byte-identical to a copy
		// taken when it was returned), likewise for Decompress results.
		if sh, _ := r.Shard(); sh == 0 {
			small := inputs
			if len(small) > 22 {
				small = inputs[:22] // all inputs of length <= 2 over the 4-symbol alphabet, plus the empty one
			}
			for _, a := range algos {
				if r.Quick() && (a.n == "lz4" || a.n == "zstd") {
					small = inputs[:6]
				}
				c1, c2 := compressor.New(a.t), compressor.New(a.t)
				for ai2, A := range small {
					for bi, B := range small {
						for _, second := range []compressor.Compressor{c1, c2} {
							r.Eval(1)
							ca, err := c1.Compress(A)
							if err != nil {
								continue
							}
							keep := append([]byte(nil), ca...)
							cb, err2 := second.Compress(B)
							da, err3 := c1.Decompress(ca)
							cs := map[string]any{"algo": a.n, "A": fmt.Sprintf("%x", A), "B": fmt.Sprintf("%x", B)}
							if !bytes.Equal(ca, keep) {
								r.Fail("roundtrip", a.n+":earlier-result-overwritten-by-a-later-call", fmt.Sprintf("%s: the bytes returned by Compress(%x) changed when Compress(%x) was called afterwards", a.n, A, B), cs)
							} else if err3 != nil || !bytes.Equal(da, A) {
								r.Fail("roundtrip", a.n+":earlier-result-overwritten-by-a-later-call", fmt.Sprintf("%s: Compress(%x), then Compress(%x), then Decompress of the first result gives %x, err %v", a.n, A, B, da, err3), cs)
							}
							if err2 == nil {
								keepA := append([]byte(nil), da...)
								db, _ := second.Decompress(cb)
								if !bytes.Equal(da, keepA) {
									r.Fail("roundtrip", a.n+":earlier-result-overwritten-by-a-later-call", fmt.Sprintf("%s: the bytes returned by Decompress changed when another Decompress was called afterwards (A=%x B=%x)", a.n, A, B), cs)
								}
								_ = db
							}
							if ai2 != bi {
								r.Nontrivial(fmt.Sprintf("pair/%s/%d/%d", a.n, ai2, bi))
							}
						}
					}
				}
			}
		}
		item := 0
		for ai, a := range algos {
			if f := os.Getenv("VERIF_C24_ALGO"); f != "" && f != a.n {
				item += len(inputs)
				continue
			}
			c := compressor.New(a.t)
			for ii, in := range inputs {
				item++
				if !r.Mine(item) {
					continue
				}
				if r.Quick() && (a.n == "lz4" || a.n == "zstd") && ((len(in) == 3 && ii%8 != 1) || len(in) > 1024 || (len(in) == 1024 && in[1] == 1)) {
					continue // lz4 costs 3 ms per call (4 MiB buffers): the quick tier keeps every 8th 3-byte input and one large input for it
				}
				if r.OutOfTime() {
					r.NotExhaustive("wall-clock budget reached before all (algo,input) items were explored")
					return
				}
				comp, err := c.Compress(in)
				r.Eval(1)
				if err != nil {
					r.Fail("roundtrip", a.n+":compress-error", fmt.Sprintf("%s Compress(len %d) error %v", a.n, len(in), err), map[string]any{"algo": a.n, "input_index": ii})
					continue
				}
				out, err := c.Decompress(comp)
				if err != nil || !bytes.Equal(out, in) {
					r.Fail("roundtrip", a.n+":roundtrip-mismatch", fmt.Sprintf("%s round trip of input #%d (len %d) gave len %d err %v", a.n, ii, len(in), len(out), err), map[string]any{"algo": a.n, "input": fmt.Sprintf("%x", trunc(in, 64))})
					continue
				}
				if ii == 5 && ai == 0 {
					r.Sample(map[string]any{"algo": a.n, "input_hex": fmt.Sprintf("%x", in), "compressed_hex": fmt.Sprintf("%x", comp), "mutations": "every truncation, substitution, adjacent swap"})
				}
				try := func(kind string, pos int, val int, mut []byte) {
					r.Eval(1)
					if kind == "truncate" { // the cut length is part of the failure's identity
						if pos < 16 {
							kind = fmt.Sprintf("truncate@%d", pos)
						} else {
							kind = "truncate@16+"
						}
					}
					if bytes.Equal(mut, comp) {
						return
					}
					r.Nontrivial(fmt.Sprintf("%s/%d/%s/%d/%d", a.n, ii, kind, pos, val))
					var got []byte
					var err error
					r.Watchdog("corrupt", a.n+":"+kind+":hang", fmt.Sprintf("%s: Decompress never returns for %s at %d of input #%d", a.n, kind, pos, ii),
						map[string]any{"algo": a.n, "input_hex": fmt.Sprintf("%x", trunc(in, 64)), "mutation": kind, "pos": pos, "val": val, "compressed_hex": fmt.Sprintf("%x", trunc(comp, 128))},
						func() { got, err = safeDecompress(c, mut) })
					if err != nil && strings.HasPrefix(err.Error(), "panic: ") {
						r.Outcome(a.n + ":panic")
						r.Fail("corrupt", a.n+":"+kind+":panic", fmt.Sprintf("%s: Decompress panics on %s at %d of input #%d: %v", a.n, kind, pos, ii, err),
							map[string]any{"algo": a.n, "input_hex": fmt.Sprintf("%x", trunc(in, 64)), "mutation": kind, "pos": pos, "val": val, "compressed_hex": fmt.Sprintf("%x", trunc(comp, 128))})
						return
					}
					if err != nil {
						r.Outcome(a.n + ":error")
						return
					}
					if bytes.Equal(got, in) {
						r.Outcome(a.n + ":original")
						return
					}
					class := "different-data-nil-error"
					if len(got) == 0 {
						class = "empty-data-nil-error"
					}
					r.Outcome(a.n + ":" + class)
					r.Fail("corrupt", a.n+":"+kind+":"+class,
						fmt.Sprintf("%s: %s at %d of the compressed form of input #%d (len %d) decompresses without error to %d bytes that differ from the input", a.n, kind, pos, ii, len(in), len(got)),
						map[string]any{"algo": a.n, "input_hex": fmt.Sprintf("%x", trunc(in, 64)), "input_len": len(in), "mutation": kind, "pos": pos, "val": val, "compressed_hex": fmt.Sprintf("%x", trunc(comp, 128))})
				}
				for n := 0; n < len(comp); n++ {
					try("truncate", n, 0, comp[:n])
				}
				// big compressed forms in the quick tier: stride the offsets of the payload but keep the first and last 64 bytes complete
				for p := 0; p < len(comp); p++ {
					if r.Quick() && a.n == "lz4" {
						for _, v := range []byte{comp[p] ^ 1, comp[p] ^ 0x80} {
							m := append([]byte{}, comp...)
							m[p] = v
							try("substitute", p, int(v), m)
						}
						continue
					}
					if r.Quick() && len(comp) > 400 && p >= 64 && p < len(comp)-64 && p%7 != 0 {
						continue
					}
					for _, v := range subs(comp[p]) {
						m := append([]byte{}, comp...)
						m[p] = v
						try("substitute", p, int(v), m)
					}
				}
				for p := 0; p+1 < len(comp); p++ {
					m := append([]byte{}, comp...)
					m[p], m[p+1] = m[p+1], m[p]
					try("swap", p, 0, m)
				}
			}
		}
	})
}

func trunc(b []byte, n int) []byte {
	if len(b) > n {
		return b[:n]
	}
	return b
}

func safeDecompress(c compressor.Compressor, b []byte) (out []byte, err error) {
	defer func() {
		if p := recover(); p != nil {
			err = fmt.Errorf("panic: %v", p)
		}
	}()
	return c.Decompress(b)
}
