package props

import (
	"fmt"
	"os"
	"regexp"
	"sort"
	"strings"
	"testing"

	"github.com/hydraide/hydraide/app/vshim/vrt"
	hydrapb "github.com/hydraide/hydraide/sdk/go/hydraidego/v3/hydraidepbgo"
	"verifharness/kit"
)

// C10 — concurrent use never crashes the server or races on memory.
// The harness binary is built with -race. A reader thread and a writer thread run gateway requests on one in-memory
// swamp under the controlled scheduler, whose hand-offs are invisible to the race detector (norace spin on a plain
// word): for every enumerated schedule the detector therefore judges exactly the happens-before order the code under
// test creates itself. After each execution the worker looks at its race log; new reports are attributed to the
// execution that just ran. In addition: no request panics, the process stays alive, and every read returns a value and
// an UpdatedBy that belong to the same version (the writer always sets both).

type c10prog struct{ reader, writer []string }

func (p c10prog) String() string { return fmt.Sprintf("reader=%v writer=%v", p.reader, p.writer) }

// per-thread result slots: each thread writes only its own slot (no shared harness state between managed threads)
type c10slot struct {
	torn   []string
	noResp int
	_pad   [64]byte
}

var c10slots [2]c10slot

func c10versionOK(t *hydrapb.Treasure) (bool, string) {
	if t == nil || !t.IsExist || t.Key != "a" {
		return true, ""
	}
	v, by := int32(-1), ""
	if t.Int32Val != nil {
		v = *t.Int32Val
	}
	if t.UpdatedBy != nil {
		by = *t.UpdatedBy
	}
	// versions of key a: (1,"w1") initial, (2,"w2") written by the writer
	if (v == 1 && by == "w1") || (v == 2 && by == "w2") {
		return true, ""
	}
	return false, fmt.Sprintf("value=%d updatedBy=%q", v, by)
}

func c10do(rg *rigT, swamp, op string, slot *c10slot) {
	check := func(ts []*hydrapb.Treasure) {
		for _, t := range ts {
			if ok, what := c10versionOK(t); !ok {
				slot.torn = append(slot.torn, op+": "+what)
			}
		}
	}
	switch op {
	case "GetAll":
		r, err := rg.gw.GetAll(bg, &hydrapb.GetAllRequest{IslandID: 1, SwampName: swamp})
		if err == nil && r == nil {
			slot.noResp++
		} else if r != nil {
			check(r.Treasures)
		}
	case "Get(a)":
		r, err := rg.gw.Get(bg, &hydrapb.GetRequest{Swamps: []*hydrapb.GetSwamp{{IslandID: 1, SwampName: swamp, Keys: []string{"a"}}}})
		if err == nil && r == nil {
			slot.noResp++
		} else if r != nil && len(r.Swamps) > 0 {
			check(r.Swamps[0].Treasures)
		}
	case "GetByIndex(CREATION)":
		r, err := rg.gw.GetByIndex(bg, &hydrapb.GetByIndexRequest{IslandID: 1, SwampName: swamp, IndexType: hydrapb.IndexType_CREATION_TIME})
		if err == nil && r == nil {
			slot.noResp++
		} else if r != nil {
			check(r.Treasures)
		}
	case "GetByIndex(KEY)":
		r, err := rg.gw.GetByIndex(bg, &hydrapb.GetByIndexRequest{IslandID: 1, SwampName: swamp, IndexType: hydrapb.IndexType_KEY})
		if err == nil && r == nil {
			slot.noResp++
		} else if r != nil {
			check(r.Treasures)
		}
	case "Stream(filter)":
		fs := &fakeStream[hydrapb.GetByIndexStreamResponse]{}
		rg.gw.GetByIndexStream(&hydrapb.GetByIndexStreamRequest{IslandID: 1, SwampName: swamp, IndexType: hydrapb.IndexType_KEY,
			Filters: &hydrapb.FilterGroup{Filters: []*hydrapb.TreasureFilter{{Operator: hydrapb.Relational_GREATER_THAN, CompareValue: &hydrapb.TreasureFilter_Int32Val{Int32Val: 0}}}}}, fs)
		for _, x := range fs.sent {
			check([]*hydrapb.Treasure{x.Treasure})
		}
	case "Count":
		r, err := rg.gw.Count(bg, &hydrapb.CountRequest{Swamps: []*hydrapb.CountRequest_SwampIdentifier{{IslandID: 1, SwampName: swamp}}})
		if err == nil && r == nil {
			slot.noResp++
		}
	case "Set(c)":
		r, err := rg.gw.Set(bg, &hydrapb.SetRequest{Swamps: []*hydrapb.SwampRequest{{IslandID: 1, SwampName: swamp, CreateIfNotExist: true, Overwrite: true, KeyValues: []*hydrapb.KeyValuePair{{Key: "c", Int32Val: p(int32(3)), CreatedAt: ts(1700000003)}}}}})
		if err == nil && r == nil {
			slot.noResp++
		}
	case "Set(a,v2)":
		r, err := rg.gw.Set(bg, &hydrapb.SetRequest{Swamps: []*hydrapb.SwampRequest{{IslandID: 1, SwampName: swamp, CreateIfNotExist: true, Overwrite: true, KeyValues: []*hydrapb.KeyValuePair{{Key: "a", Int32Val: p(int32(2)), UpdatedBy: p("w2"), UpdatedAt: ts(1700000009)}}}}})
		if err == nil && r == nil {
			slot.noResp++
		}
	case "Delete(a)":
		r, err := rg.gw.Delete(bg, &hydrapb.DeleteRequest{Swamps: []*hydrapb.DeleteRequest_SwampKeys{{IslandID: 1, SwampName: swamp, Keys: []string{"a"}}}})
		if err == nil && r == nil {
			slot.noResp++
		}
	case "Shift(a)":
		r, err := rg.gw.ShiftByKeys(bg, &hydrapb.ShiftByKeysRequest{IslandID: 1, SwampName: swamp, Keys: []string{"a"}})
		if err == nil && r == nil {
			slot.noResp++
		}
	case "Inc(b)":
		r, err := rg.gw.IncrementInt32(bg, &hydrapb.IncrementInt32Request{IslandID: 1, SwampName: swamp, Key: "b", IncrementBy: 1})
		if err == nil && r == nil {
			slot.noResp++
		}
	}
}

var c10frame = regexp.MustCompile(`(?m)^  (github\.com/hydraide/hydraide/[^\s(]+)\(`)

// c10races splits new race-log text into reports and names each by the innermost hydraide frames of the two accesses.
func c10races(text string) []string {
	var out []string
	for _, rep := range strings.Split(text, "WARNING: DATA RACE")[1:] {
		// the first two stacks are the two conflicting accesses
		parts := regexp.MustCompile(`(?m)^(Read|Write|Previous read|Previous write|Atomic|Previous atomic)[^\n]*\n`).Split(rep, 4)
		var tops []string
		for i := 1; i < len(parts) && i <= 2; i++ {
			// the innermost frame that is not Go runtime / standard library decides whose access it is
			top := "(outside hydraide)"
			for _, ln := range strings.Split(parts[i], "\n") {
				ln = strings.TrimSpace(ln)
				if ln == "" || strings.HasPrefix(ln, "/") || !strings.Contains(ln, "(") {
					continue
				}
				f := ln[:strings.LastIndex(ln, "(")]
				if !strings.Contains(f, "/") || strings.HasPrefix(f, "runtime.") || strings.HasPrefix(f, "internal/") || strings.HasPrefix(f, "sync") || strings.HasPrefix(f, "reflect.") {
					continue
				}
				if strings.HasPrefix(f, "github.com/hydraide/hydraide/") && !strings.Contains(f, "/vshim/") {
					top = strings.TrimPrefix(f, "github.com/hydraide/hydraide/")
					// a rewritten `range m` shows up as <func>.Order[...].OrderAt[...].funcN: name the enclosing function
					for _, cut := range []string{".Order[", "[go.shape", ".func"} {
						if i := strings.Index(top, cut); i >= 0 {
							top = top[:i]
						}
					}
				}
				break
			}
			tops = append(tops, top)
		}
		sort.Strings(tops)
		out = append(out, strings.Join(tops, " <-> "))
	}
	return out
}

// executions per program and shard of the bound-2 pass of the thorough tier (16 shards)
const c10ThoroughExecsPerShard = 60

func TestC10(t *testing.T) {
	rigSetup()
	logs := &logCap{}
	logs.install()
	r := kit.Start("C10", "exploration")
	defer r.Finish()
	bound := 1
	if !r.Quick() {
		bound = 2
	}
	readers := [][]string{{"GetAll"}, {"Get(a)"}, {"GetByIndex(CREATION)"}, {"Stream(filter)"}}
	writers := [][]string{{"Set(c)"}, {"Set(a,v2)"}, {"Delete(a)"}, {"Shift(a)"}}
	if !r.Quick() {
		readers = append(readers, []string{"GetByIndex(KEY)"}, []string{"Count"})
		writers = append(writers, []string{"Inc(b)"})
	}
	var progs []c10prog
	for _, rd := range readers {
		for _, wr := range writers {
			progs = append(progs, c10prog{rd, wr})
		}
	}
	progs = append(progs, c10prog{[]string{"Set(a,v2)"}, []string{"Inc(b)"}}, c10prog{[]string{"Delete(a)"}, []string{"Set(c)"}})
	if os.Getenv("VERIF_C10_ONLY") == "bucket" { // development knob: only the bucket program
		progs = nil
	}
	logPath := ""
	if g := os.Getenv("GORACE"); strings.Contains(g, "log_path=") {
		logPath = strings.Fields(g[strings.Index(g, "log_path=")+9:])[0] + fmt.Sprintf(".%d", os.Getpid())
	}
	r.Extra["race_detector"] = raceEnabled
	r.Extra["programs"] = len(progs)
	r.Extra["preemption_bound"] = bound
	r.Rule = fmt.Sprintf("harness built with -race; %d programs = reader in {GetAll, Get(a), GetByIndex CREATION_TIME (cold index build), GetByIndexStream with a value filter; thorough: also GetByIndex KEY, Count} x writer in {Set of a new key, Set(a) writing value and UpdatedBy together, Delete(a), ShiftByKeys([a]); thorough: also IncrementInt32(b)} plus two writer/writer pairs, on an in-memory swamp holding a,b,z; every schedule with at most %d preemptions at the scheduling points of the beacon, treasure, guard, swamp and gateway code; the scheduler's hand-off is invisible to the race detector, so for each schedule the detector sees exactly the synchronisation the code performs. Oracle per execution: no new data-race report whose two accesses lie in hydraide code; no request without a response (recovered panic); the worker process survives; every read of key a returns (value, UpdatedBy) of one version. Plus one three-thread program on a swamp of msgpack-body records: a filtered read that builds the field index of the filtered field for the first time || two writers saving a matching record each, every schedule with at most 2 preemptions inside the field-index (bucket) package. Non-trivial = executions with at least one preemption", len(progs), bound)
	r.Assumptions = []string{"the race detector's verdict is per execution (happens-before analysis of that schedule); its shadow memory keeps four accesses per word, the programs are tiny", "reports whose innermost non-shim frames are both outside hydraide are ignored (harness, in-memory file system)"}
	if !raceEnabled {
		r.NotExhaustive("the binary was built without -race: only the panic / torn-read oracles ran")
	}
	r.Parallel(16, "TestC10", func() {
		var seenLen int64
		for pi, pr := range progs {
			pr := pr
			body := func() {
				rg := newRig(true)
				swamp := "mem/r/race"
				c10slots[0], c10slots[1] = c10slot{}, c10slot{}
				logs.reset()
				rg.gw.Set(bg, &hydrapb.SetRequest{Swamps: []*hydrapb.SwampRequest{{IslandID: 1, SwampName: swamp, CreateIfNotExist: true, Overwrite: true, KeyValues: []*hydrapb.KeyValuePair{
					{Key: "a", Int32Val: p(int32(1)), UpdatedBy: p("w1"), CreatedAt: ts(1700000001)},
					{Key: "b", Int32Val: p(int32(5)), CreatedAt: ts(1700000002)},
					{Key: "z", Int32Val: p(int32(9))}}}}})
				vrt.Drain()
				t0 := vrt.Go("reader", func() {
					for _, op := range pr.reader {
						c10do(rg, swamp, op, &c10slots[0])
					}
				})
				t1 := vrt.Go("writer", func() {
					for _, op := range pr.writer {
						c10do(rg, swamp, op, &c10slots[1])
					}
				})
				vrt.Join(t0)
				vrt.Join(t1)
				vrt.Quiesce()
			}
			noPre := func(label string) bool {
				for _, s := range []string{"beacon.", "treasure.(*treasure)", "guard.", "swamp.(*swamp)", "server/gateway."} {
					if strings.Contains(label, s) {
						return false
					}
				}
				return true
			}
			// thorough tier: every program first with bound 1 in full (= the quick tier's coverage of it), then with
			// bound 2 up to a fixed number of executions per shard. A time budget alone made the set of programs
			// reached - and with it the set of known-finding signatures - depend on the speed of the machine.
			passes := []int{bound}
			if bound > 1 {
				passes = []int{1, bound}
			}
			for _, passBound := range passes {
				e := &vrt.Explorer{Body: body, Stop: r.OutOfTime}
				e.Shard, e.ShardN = r.Shard()
				e.Cfg = vrt.Config{Bound: passBound, Sites: true, NoPreempt: noPre, StepCap: 300000, EnvIdle: true}
				if passBound > 1 {
					e.MaxExecs = c10ThoroughExecsPerShard
				}
				e.Check = func(x *vrt.Exec) {
					r.Eval(1)
					if x.Cost > 0 {
						r.Nontrivial(fmt.Sprintf("%d/%v", pi, x.Choices()))
					}
					cs := map[string]any{"program": pr.String(), "schedule": x.Choices(), "preemptions": x.Cost}
					cls := strings.Join(pr.reader, "+") + "||" + strings.Join(pr.writer, "+")
					if x.Deadlock {
						r.Count("nonterminating_schedules", 1)
					}
					for _, pn := range x.Panics {
						r.Fail("concurrency", "thread-panic:"+cls, pn, cs)
					}
					for si := range c10slots {
						for _, tn := range c10slots[si].torn {
							r.Fail("concurrency", "torn-read:"+cls, fmt.Sprintf("program %s: %s is not a committed version of key a", pr, tn), cs)
						}
						if c10slots[si].noResp > 0 {
							r.Fail("concurrency", "request-without-response:"+cls, fmt.Sprintf("program %s: a request returned neither a response nor an error (recovered panic): %v", pr, logs.take()), cs)
						}
					}
					if logPath != "" {
						if b, err := os.ReadFile(logPath); err == nil && int64(len(b)) > seenLen {
							text := string(b[seenLen:])
							seenLen = int64(len(b))
							for _, rc := range c10races(text) {
								if strings.Contains(rc, "(outside hydraide)") {
									r.Count("race_reports_outside_hydraide", 1)
									continue
								}
								cs2 := map[string]any{"program": pr.String(), "schedule": x.Choices(), "report": text[:min(len(text), 6000)]}
								r.Fail("race", "data-race:"+rc, fmt.Sprintf("program %s, schedule with %d preemptions: the race detector reports unsynchronised accesses in %s", pr, x.Cost, rc), cs2)
							}
						}
					}
					r.Outcome(fmt.Sprintf("%d|%d|%d", pi, len(c10slots[0].torn), c10slots[0].noResp+c10slots[1].noResp))
				}
				e.Run()
				r.Count("executions", int64(e.Stats.Execs))
				r.SetMax("max_points_per_execution", int64(e.Stats.MaxPoints))
				if e.Stats.Capped {
					r.NotExhaustive(fmt.Sprintf("program %s bound %d capped after %d executions", pr, passBound, e.Stats.Execs))
				}
				if pi == 0 {
					if sh, _ := r.Shard(); sh == 0 {
						r.Sample(map[string]any{"program": pr.String(), "bound": passBound, "executions": e.Stats.Execs, "race_log": logPath})
					}
				}
			}
		}
		c10bucket(r, logPath, &seenLen)
	})
}

// c10bucket: the field index ("bucket") of a msgpack body field is built by the first filtered read of that field;
// records saved while the build runs are buffered and applied by drain rounds. Three threads: a filtered read on a
// cold swamp, and two writers saving a matching record each. Preemption only inside the bucket package, where the
// buffer hand-over happens, but with bound 2 in both tiers (a second drain round needs two).
func c10bucket(r *kit.Run, logPath string, seenLen *int64) {
	body := func() {
		rg := newRig(true)
		swamp := "mem/r/racebucket"
		rec := func(k, sv string, created int64) *hydrapb.KeyValuePair {
			return &hydrapb.KeyValuePair{Key: k, BytesVal: append([]byte{0xC7, 0x00}, mp(map[string]any{"s": sv})...), CreatedAt: ts(1700000000 + created)}
		}
		set := func(kv *hydrapb.KeyValuePair) {
			rg.gw.Set(bg, &hydrapb.SetRequest{Swamps: []*hydrapb.SwampRequest{{IslandID: 1, SwampName: swamp, CreateIfNotExist: true, Overwrite: true, KeyValues: []*hydrapb.KeyValuePair{kv}}}})
		}
		set(rec("a", "x", 1))
		set(rec("b", "y", 2))
		vrt.Drain()
		fx := &hydrapb.FilterGroup{Logic: hydrapb.FilterLogic_AND, Filters: []*hydrapb.TreasureFilter{
			{Operator: hydrapb.Relational_EQUAL, BytesFieldPath: p("s"), CompareValue: &hydrapb.TreasureFilter_StringVal{StringVal: "x"}}}}
		t0 := vrt.Go("reader", func() {
			fs := &fakeStream[hydrapb.GetByIndexStreamResponse]{}
			rg.gw.GetByIndexStream(&hydrapb.GetByIndexStreamRequest{IslandID: 1, SwampName: swamp, IndexType: hydrapb.IndexType_CREATION_TIME, Filters: fx}, fs)
		})
		t1 := vrt.Go("writer1", func() { set(rec("c", "x", 3)) })
		t2 := vrt.Go("writer2", func() { set(rec("d", "x", 4)) })
		vrt.Join(t0)
		vrt.Join(t1)
		vrt.Join(t2)
		vrt.Quiesce()
	}
	noPre := func(label string) bool { return !strings.Contains(label, "swamp/bucket.") }
	e := &vrt.Explorer{Body: body, Stop: r.OutOfTime}
	e.Shard, e.ShardN = r.Shard()
	e.Cfg = vrt.Config{Bound: 2, Sites: true, NoPreempt: noPre, StepCap: 300000, EnvIdle: true}
	if !r.Quick() {
		e.MaxExecs = 40 * c10ThoroughExecsPerShard
	}
	pr := "bucket: GetByIndexStream(filter s=x, cold) || Set(c,s=x) || Set(d,s=x)"
	e.Check = func(x *vrt.Exec) {
		r.Eval(1)
		r.Count("bucket_executions", 1)
		if x.Cost > 0 {
			r.Nontrivial(fmt.Sprintf("bucket/%v", x.Choices()))
		}
		cs := map[string]any{"program": pr, "schedule": x.Choices(), "preemptions": x.Cost}
		for _, pn := range x.Panics {
			r.Fail("concurrency", "thread-panic:bucket", pn, cs)
		}
		if x.Deadlock {
			r.Fail("concurrency", "requests-never-return:bucket", fmt.Sprintf("program %s: blocked %v", pr, x.Blocked), cs)
		}
		if logPath != "" {
			if b, err := os.ReadFile(logPath); err == nil && int64(len(b)) > *seenLen {
				text := string(b[*seenLen:])
				*seenLen = int64(len(b))
				for _, rc := range c10races(text) {
					if strings.Contains(rc, "(outside hydraide)") {
						r.Count("race_reports_outside_hydraide", 1)
						continue
					}
					cs2 := map[string]any{"program": pr, "schedule": x.Choices(), "report": text[:min(len(text), 6000)]}
					r.Fail("race", "data-race:"+rc, fmt.Sprintf("program %s, schedule with %d preemptions: the race detector reports unsynchronised accesses in %s", pr, x.Cost, rc), cs2)
				}
			}
		}
		r.Outcome(fmt.Sprintf("bucket|%v|%d", x.Deadlock, len(x.Panics)))
	}
	e.Run()
	r.Count("executions", int64(e.Stats.Execs))
	if e.Stats.Capped {
		r.NotExhaustive(fmt.Sprintf("program %s capped after %d executions", pr, e.Stats.Execs))
	}
}
