package props

import (
	"fmt"
	"sort"
	"strings"
)

// refkv is the boring reference model of one swamp: key -> record. It is written from the documented semantics
// (proto/hydraide.proto comments, docs/sdk/go) and defines, for every request of the C06 alphabet, the response a
// client must see. Fields the documentation leaves open are not modelled and not compared (see the *unspecified*
// notes). Timestamps are virtual-clock nanoseconds; 0 = not set.
type kvRec struct {
	kind, val     string // kind: void,i8,i32,u64,f64,s,sl ...; val: rendered value (sl: sorted by insertion "[7 9]")
	slice         []uint32
	num           float64 // numeric value for typed counters
	cAt, uAt, eAt int64
	cBy, uBy      string
	metaUnknown   bool // metadata not specified by the docs after the last operation (not compared)
	persisted     bool // hidden state: the record has been written to the file at least once (state key only)
}

type refkv struct {
	recs map[string]*kvRec
	// shell: the swamp object may exist in memory without any record (an operation summoned it but stored nothing);
	// whether such a swamp "exists" is unspecified, so existence-dependent answers are not compared while it lasts.
	shell bool
	// ghost: keys on which a conditional increment failed while the key did not exist. The server keeps a hidden
	// typed record for such a key (known finding); the model only remembers the precondition for classification.
	ghost map[string]string
	// reopened: hidden state - the live swamp instance was loaded from its file (state key only)
	reopened bool
	// removed: hidden state - keys that existed in the live swamp instance and were removed while the instance stayed
	// alive (state key only: the instance may still hold bookkeeping for them)
	removed map[string]bool
}

func newRefkv() *refkv { return &refkv{recs: map[string]*kvRec{}, ghost: map[string]string{}} }

func (m *refkv) exists() bool { return len(m.recs) > 0 }

func (r *kvRec) valStr() string {
	switch r.kind {
	case "void":
		return "void"
	case "sl":
		if len(r.slice) == 0 {
			return "void" // an empty set renders like no value (Uint32Slice field nil)
		}
		return fmt.Sprintf("sl:%v", r.slice)
	}
	return r.kind + ":" + r.val
}

func nsStr(ns int64) string {
	if ns <= 0 {
		return "-"
	}
	return fmt.Sprintf("%d.%09d", ns/1e9, ns%1e9)
}

func byStr(s string) string {
	if s == "" {
		return "-"
	}
	return fmt.Sprintf("%q", s)
}

func (r *kvRec) render(key string) string {
	if r.metaUnknown {
		return fmt.Sprintf("%s:%s <meta-unspecified>", key, r.valStr())
	}
	return fmt.Sprintf("%s:%s c=%s/%s u=%s/%s e=%s", key, r.valStr(), nsStr(r.cAt), byStr(r.cBy), nsStr(r.uAt), byStr(r.uBy), nsStr(r.eAt))
}

func (m *refkv) renderKeys(keys []string, includeAbsent bool) string {
	var s []string
	for _, k := range keys {
		if r, ok := m.recs[k]; ok {
			s = append(s, r.render(k))
		} else if includeAbsent {
			s = append(s, k+":absent")
		}
	}
	return strings.Join(s, " | ")
}

func (m *refkv) sortedKeys() []string {
	var ks []string
	for k := range m.recs {
		ks = append(ks, k)
	}
	sort.Strings(ks)
	return ks
}

// afterRemoval is called when records were removed: an emptied swamp is destroyed (documented auto-removal).
func (m *refkv) afterRemoval() {
	if len(m.recs) == 0 {
		m.shell = false
	}
}

type kvMeta struct {
	cAt, uAt, eAt int64
	cBy, uBy      string
}

// set models one key of a Set request. Returns the status.
func (m *refkv) set(key, kind, val string, num float64, slice []uint32, meta *kvMeta, createIfNotExist, overwrite bool) string {
	r, ok := m.recs[key]
	if !ok && !createIfNotExist {
		return "NOT_FOUND"
	}
	if ok && !overwrite {
		return "NOTHING_CHANGED"
	}
	if !ok {
		n := &kvRec{kind: kind, val: val, num: num}
		if kind == "sl" {
			n.slice = dedupe(nil, slice)
		}
		if meta != nil {
			n.cAt, n.uAt, n.eAt, n.cBy, n.uBy = meta.cAt, meta.uAt, meta.eAt, meta.cBy, meta.uBy
		}
		m.recs[key] = n
		m.shell = false
		return "NEW"
	}
	changed := false
	if kind == "sl" {
		// a uint32-set value is merged into an existing set (documented push semantics of the Uint32Slice field)
		if r.kind != "sl" {
			r.kind, r.slice, r.val = "sl", nil, ""
			changed = true
		}
		before := len(r.slice)
		r.slice = dedupe(r.slice, slice)
		if len(r.slice) != before {
			changed = true
		}
	} else if r.kind != kind || r.val != val {
		r.kind, r.val, r.num, r.slice = kind, val, num, nil
		changed = true
	}
	if meta != nil {
		if meta.cAt != 0 && meta.cAt != r.cAt {
			r.cAt, changed = meta.cAt, true
		}
		if meta.uAt != 0 && meta.uAt != r.uAt {
			r.uAt, changed = meta.uAt, true
		}
		if meta.eAt != 0 && meta.eAt != r.eAt {
			r.eAt, changed = meta.eAt, true
		}
		if meta.cBy != "" && meta.cBy != r.cBy {
			r.cBy, changed = meta.cBy, true
		}
		if meta.uBy != "" && meta.uBy != r.uBy {
			r.uBy, changed = meta.uBy, true
		}
	}
	if changed {
		return "UPDATED"
	}
	return "NOTHING_CHANGED"
}

func dedupe(base, add []uint32) []uint32 {
	out := append([]uint32(nil), base...)
	for _, v := range add {
		found := false
		for _, x := range out {
			if x == v {
				found = true
			}
		}
		if !found {
			out = append(out, v)
		}
	}
	return out
}

func (m *refkv) delete(key string) string {
	if _, ok := m.recs[key]; !ok {
		return "NOT_FOUND"
	}
	delete(m.recs, key)
	m.afterRemoval()
	return "DELETED"
}
