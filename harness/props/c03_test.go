package props

import (
	"fmt"
	"testing"

	"github.com/hydraide/hydraide/app/core/hydra/swamp/beacon"
	"github.com/hydraide/hydraide/app/core/hydra/swamp/chronicler"
	v2 "github.com/hydraide/hydraide/app/core/hydra/swamp/chronicler/v2"
	"github.com/hydraide/hydraide/app/core/hydra/swamp/treasure"
	"github.com/hydraide/hydraide/app/vshim/vos"
	"verifharness/kit"
)

// c03family builds a file through the real chronicler: `live` keys rewritten round-robin until `total`
// entries are in the file, then `dels` of them deleted (dels == live: everything deleted).
type c03family struct{ live, total, dels int }

// buildC03File writes the family's history (no live-count callback, so no compaction happens while building)
// and returns the model of live records.
func buildC03File(f c03family) map[string]string {
	vos.UseMem()
	c := chronicler.NewV2WithName(swampPath, 1, "s/r/w")
	c.CreateDirectoryIfNotExists()
	model := map[string]string{}
	seen := map[string]bool{}
	n := 0
	for n < f.total-f.dels {
		k := fmt.Sprintf("k%d", n%f.live)
		v := fmt.Sprintf("v%d", n)
		c.Write([]treasure.Treasure{mkTreasure(k, v, seen[k], false)})
		seen[k] = true
		model[k] = v
		n++
	}
	for d := 0; d < f.dels; d++ {
		k := fmt.Sprintf("k%d", d)
		c.Write([]treasure.Treasure{mkTreasure(k, "", true, true)})
		delete(model, k)
	}
	c.Close()
	return model
}

// staleTemp builds the bytes of a valid compaction temp file that holds a key deleted since ("ghost") and an old value of k0.
func staleTempBytes() []byte {
	vos.UseMem()
	saved := vos.FS()
	vos.SetFS(baseState())
	w, _ := v2.NewFileWriterWithName("/data/1/abc/t.hyd", v2.DefaultMaxBlockSize, "s/r/w")
	for _, kv := range [][2]string{{"ghost", "boo"}, {"k0", "stale"}} {
		t := mkTreasure(kv[0], kv[1], false, false)
		g := t.StartTreasureGuard(true)
		b, _ := t.ConvertToByte(g)
		t.ReleaseTreasureGuard(g)
		w.WriteEntry(v2.Entry{Operation: v2.OpInsert, Key: kv[0], Data: b})
	}
	w.Close()
	b, _ := vos.FS().FileBytes("/data/1/abc/t.hyd")
	out := append([]byte(nil), b...)
	vos.SetFS(saved)
	return out
}

type c03entry struct {
	name string
	run  func() error
}

func loadIndexModel() (map[string]string, error) {
	if _, err := vos.Stat(hydPath); err != nil {
		return map[string]string{}, nil
	}
	rd, err := v2.NewFileReader(hydPath)
	if err != nil {
		return nil, err
	}
	defer rd.Close()
	idx, _, err := rd.LoadIndex()
	if err != nil {
		return nil, err
	}
	out := map[string]string{}
	for k, raw := range idx {
		t := treasure.New(nil)
		g := t.StartTreasureGuard(true)
		err := t.LoadFromByte(g, raw, hydPath)
		t.ReleaseTreasureGuard(g)
		if err != nil {
			return nil, fmt.Errorf("decode %s: %v", k, err)
		}
		v, _ := t.GetContentString()
		out[k] = v
	}
	return out, nil
}

// C03 — compaction never changes the stored state.
func TestC03(t *testing.T) {
	quietLogs()
	r := kit.Start("C03", "fault_enumeration")
	defer r.Finish()
	r.Rule = "files built by the real chronicler from the family {live keys 1..3} x {total entries 99,100,101,250} x {no delete, one trailing delete, all deleted}; x 7 compaction entry points (inline on Write, on Close, self-heal on Load, ForceCompaction, Compactor.Compact exactly as hydraidectl's compactSwamp calls it, CompactIfNeeded, CompactFromIndex) x pre-existing <file>.compact in {absent, 0 bytes, 10 garbage bytes, valid stale file with a ghost key and an old value, the same cut in the middle of its block}; oracle: LoadIndex and chronicler Load after compaction == before; then EVERY crash image of the compaction's own operation log (every prefix, every torn byte offset of every temp write; create/rename/remove atomic) loads to the same state, and a further forced compaction + reload on that image too; non-trivial = a configuration in which the file was actually rewritten (rename happened), distinct by family+entry+temp, plus its crash images"
	r.Assumptions = []string{"same crash model as C02", "compactSwamp (package cmd) is reproduced by its two-line body: NewCompactor(path, DefaultMaxBlockSize, threshold).Compact()"}
	var fams []c03family
	lives := []int{1, 2, 3}
	totals := []int{99, 100, 101, 250}
	if r.Quick() {
		totals = []int{99, 100, 101}
	}
	for _, l := range lives {
		for _, n := range totals {
			fams = append(fams, c03family{l, n, 0}, c03family{l, n, 1})
			if l > 1 {
				fams = append(fams, c03family{l, n, l})
			}
		}
	}
	stale := staleTempBytes()
	temps := []struct {
		name string
		data []byte
	}{{"absent", nil}, {"empty", []byte{}}, {"garbage10", []byte("0123456789")}, {"valid-stale", stale}, {"valid-stale-torn", stale[:len(stale)-7]}}
	entries := []string{"write-inline", "close", "load-selfheal", "force", "cli-compact", "compact-if-needed", "compact-from-index"}

	r.Parallel(16, "TestC03", func() {
		item := 0
		for _, f := range fams {
			for _, en := range entries {
				for _, tp := range temps {
					item++
					if !r.Mine(item) {
						continue
					}
					if r.OutOfTime() {
						r.NotExhaustive("time budget reached")
						return
					}
					c03case(r, f, en, tp.name, tp.data)
				}
			}
		}
	})
}

func c03case(r *kit.Run, f c03family, entry, tempName string, temp []byte) {
	model := buildC03File(f)
	if temp != nil {
		vos.FS().PutFile(hydPath+".compact", temp)
	}
	want := fmtState(model)
	desc := map[string]any{"family": fmt.Sprintf("live=%d total=%d deletes=%d", f.live, f.total, f.dels), "entry": entry, "temp": tempName, "expected": want}
	before := vos.FS().Clone()
	vos.ClearLog()
	// run the entry point
	var err error
	extra := map[string]string{} // records legitimately added by the entry point itself (write-inline appends one)
	switch entry {
	case "write-inline":
		c := chronicler.NewV2WithName(swampPath, 1, "s/r/w")
		b := beacon.New()
		c.Load(b) // may self-heal; that is part of this entry point
		c.RegisterLiveCountFunction(func() int { return len(model) + 1 })
		c.Write([]treasure.Treasure{mkTreasure("zz", "new", false, false)})
		c.Close()
		extra["zz"] = "new"
	case "close":
		c := chronicler.NewV2WithName(swampPath, 1, "s/r/w")
		c.RegisterLiveCountFunction(func() int { return len(model) })
		err = c.Close()
	case "load-selfheal":
		c := chronicler.NewV2WithName(swampPath, 1, "s/r/w")
		c.Load(beacon.New())
	case "force":
		c := chronicler.NewV2WithName(swampPath, 1, "s/r/w")
		err = c.ForceCompaction()
	case "cli-compact":
		_, err = v2.NewCompactor(hydPath, v2.DefaultMaxBlockSize, 0.2).Compact()
	case "compact-if-needed":
		_, err = v2.NewCompactor(hydPath, v2.DefaultMaxBlockSize, 0.3).CompactIfNeeded()
	case "compact-from-index":
		rd, e := v2.NewFileReader(hydPath)
		if e == nil {
			idx, name, e2 := rd.LoadIndex()
			rd.Close()
			if e2 == nil {
				_, err = v2.CompactFromIndex(hydPath, v2.DefaultMaxBlockSize, name, idx, f.total)
			}
		}
	}
	_ = err // a compaction that reports failure is fine as long as the state is unchanged
	log := append([]vos.Op(nil), vos.Log()...)
	renamed := false
	for _, op := range log {
		if op.Kind == vos.OpRename {
			renamed = true
		}
	}
	r.Eval(1)
	cfgKey := fmt.Sprintf("%v/%s/%s", f, entry, tempName)
	if renamed {
		r.Nontrivial(cfgKey)
	}
	r.Outcome(fmt.Sprintf("renamed=%v err=%v", renamed, err != nil))
	wantAfter := map[string]string{}
	for k, v := range model {
		wantAfter[k] = v
	}
	for k, v := range extra {
		wantAfter[k] = v
	}
	check := func(where string, allowed ...map[string]string) bool {
		got, lerr := loadIndexModel()
		var g string
		if lerr != nil {
			g = "ERROR " + lerr.Error()
		} else {
			g = fmtState(got)
			for _, a := range allowed {
				if g == fmtState(a) {
					// the chronicler's own Load must agree with the raw index
					if cg := fmtState(loadSwamp()); cg != g {
						r.Fail("compaction", "chronicler-load-differs-from-index", fmt.Sprintf("%s: chronicler Load {%s} != LoadIndex {%s}", where, cg, g), desc)
						return false
					}
					return true
				}
			}
		}
		d := map[string]any{"where": where, "loaded": g}
		for k, v := range desc {
			d[k] = v
		}
		r.Fail("compaction", c03class(entry, tempName, where, got, model), fmt.Sprintf("%s: %s with temp=%s on %v: loaded {%s}, expected {%s}", where, entry, tempName, f, g, want), d)
		return false
	}
	if !check("after compaction", wantAfter) {
		return
	}
	if f.live == 2 && f.total == 100 && f.dels == 1 && entry == "cli-compact" && tempName == "valid-stale" {
		r.Sample(desc)
	}
	// crash images of the entry point's own operation log
	cur := before
	for j := 0; j <= len(log); j++ {
		nb := 1
		if j < len(log) && log[j].Kind == vos.OpWrite {
			nb = len(log[j].Data)
		}
		for b := 0; b < nb; b++ {
			img := cur.Clone()
			if b > 0 {
				img.Apply(log[j], b)
			}
			vos.SetFS(img)
			r.Eval(1)
			if renamed {
				r.Nontrivial(fmt.Sprintf("%s/%d/%d", cfgKey, j, b))
			}
			where := fmt.Sprintf("crash before op %d (+%d torn bytes)", j, b)
			if !check(where, model, wantAfter) {
				return
			}
			// a further compaction on the recovered image must not change anything either
			got, _ := loadIndexModel()
			if _, e := v2.NewCompactor(hydPath, v2.DefaultMaxBlockSize, 0.3).ForceCompact(); e == nil {
				if !check(where+" then forced compaction", got) {
					return
				}
			}
		}
		if j < len(log) {
			cur.Apply(log[j], -1)
		}
	}
}

func c03class(entry, temp, where string, got, model map[string]string) string {
	kind := "state-changed"
	if got != nil {
		if _, ok := got["ghost"]; ok {
			kind = "stale-temp-entries-resurrected"
		} else if v, ok := got["k0"]; ok && v == "stale" {
			kind = "stale-temp-entries-resurrected"
		} else if len(got) == 0 && len(model) > 0 {
			kind = "state-lost"
		}
	} else {
		kind = "unreadable"
	}
	w := "after"
	if len(where) > 5 && where[:5] == "crash" {
		w = "crash-image"
	}
	return fmt.Sprintf("%s:%s:temp=%s:%s", entry, w, temp, kind)
}
