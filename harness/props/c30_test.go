package props

import (
	"fmt"
	"sort"
	"strings"
	"testing"

	"github.com/hydraide/hydraide/app/vshim/vrt"
	hydrapb "github.com/hydraide/hydraide/sdk/go/hydraidego/v3/hydraidepbgo"
	"google.golang.org/protobuf/types/known/timestamppb"
	"verifharness/kit"
)

// C30 — expiry semantics are consistent across every read and claim path.
// BFS over (expiry of key a, expiry of key b, clock) reached through the API; in every state every expiry-aware
// path is asked and must agree with the single predicate: expired <=> expiry != 0 and expiry < now.

type c30model struct {
	exp   map[string]int64 // key -> expiry in ns (0 = none); key absent = no record
	clock int64            // virtual ns since Epoch
	// hidden implementation state that changes the futures of a state: whether this swamp instance has built its
	// expiry index, and whether the instance was loaded from its file. Part of the state key (never compared).
	built, reloaded bool
}

func (m *c30model) now() int64 { return vrt.Epoch + m.clock }
func (m *c30model) expired(k string) bool {
	e, ok := m.exp[k]
	return ok && e != 0 && e < m.now()
}
func (m *c30model) canon() string {
	var ks []string
	for k := range m.exp {
		ks = append(ks, k)
	}
	sort.Strings(ks)
	var b strings.Builder
	for _, k := range ks {
		fmt.Fprintf(&b, "%s=%d;", k, (m.exp[k]-vrt.Epoch)/1e9*boolInt(m.exp[k] != 0))
	}
	fmt.Fprintf(&b, "clock=%d index-built=%v loaded-from-file=%v", m.clock/1e9, m.built, m.reloaded)
	return b.String()
}

func boolInt(b bool) int64 {
	if b {
		return 1
	}
	return 0
}

func nsTS(ns int64) *timestamppb.Timestamp { return timestamppb.New(timeOfNS(ns)) }

type c30op struct {
	name  string
	run   func(r *rigT, swamp string)
	model func(m *c30model)
}

func c30ops() []c30op {
	base := vrt.Epoch
	times := map[string]int64{"none": 0, "P2": base - 2e9, "P1": base - 1e9, "E2": base + 2e9, "F3": base + 3e9}
	var ops []c30op
	for _, tn := range []string{"none", "P2", "P1", "E2", "F3"} {
		tn := tn
		e := times[tn]
		// key a: msgpack body created / re-created through PatchTreasures
		ops = append(ops, c30op{"PatchCreate(a,expiry=" + tn + ")",
			func(r *rigT, s string) {
				meta := &hydrapb.PatchMeta{}
				if e != 0 {
					meta.SetExpiredAt = nsTS(e)
				}
				r.gw.PatchTreasures(bg, &hydrapb.PatchTreasuresRequest{IslandID: 1, SwampName: s, CreateIfNotExist: true, InitialMsgpackOnCreate: mp(map[string]any{"n": 1}),
					Patches: []*hydrapb.TreasurePatch{{Key: "a", Ops: []*hydrapb.PatchOp{{Op: hydrapb.PatchOp_SET, Path: "n", Value: mp(2)}}}}, Meta: meta})
			},
			func(m *c30model) {
				if _, ok := m.exp["a"]; !ok {
					m.exp["a"] = 0
				}
				if e != 0 {
					m.exp["a"] = e
				}
			}},
			// key b: int32 through Set
			c30op{"Set(b,1,expiry=" + tn + ")",
				func(r *rigT, s string) {
					kv := &hydrapb.KeyValuePair{Key: "b", Int32Val: p(int32(1))}
					if e != 0 {
						kv.ExpiredAt = nsTS(e)
					}
					r.gw.Set(bg, &hydrapb.SetRequest{Swamps: []*hydrapb.SwampRequest{{IslandID: 1, SwampName: s, CreateIfNotExist: true, Overwrite: true, KeyValues: []*hydrapb.KeyValuePair{kv}}}})
				},
				func(m *c30model) {
					if _, ok := m.exp["b"]; !ok {
						m.exp["b"] = 0
					}
					if e != 0 {
						m.exp["b"] = e
					}
				}})
	}
	ops = append(ops,
		c30op{"Set(b,1,expiry=zero-timestamp)",
			func(r *rigT, s string) {
				r.gw.Set(bg, &hydrapb.SetRequest{Swamps: []*hydrapb.SwampRequest{{IslandID: 1, SwampName: s, CreateIfNotExist: true, Overwrite: true, KeyValues: []*hydrapb.KeyValuePair{{Key: "b", Int32Val: p(int32(1)), ExpiredAt: &timestamppb.Timestamp{}}}}}})
			},
			func(m *c30model) {
				if _, ok := m.exp["b"]; !ok {
					m.exp["b"] = 0
				}
			}},
		c30op{"Set(b,1,expiry=pre-epoch)",
			func(r *rigT, s string) {
				r.gw.Set(bg, &hydrapb.SetRequest{Swamps: []*hydrapb.SwampRequest{{IslandID: 1, SwampName: s, CreateIfNotExist: true, Overwrite: true, KeyValues: []*hydrapb.KeyValuePair{{Key: "b", Int32Val: p(int32(1)), ExpiredAt: &timestamppb.Timestamp{Seconds: -5}}}}}})
			},
			func(m *c30model) {
				if _, ok := m.exp["b"]; !ok {
					m.exp["b"] = 0
				}
			}},
		c30op{"Patch(a,SetExpiredAt=P1)",
			func(r *rigT, s string) {
				r.gw.PatchTreasures(bg, &hydrapb.PatchTreasuresRequest{IslandID: 1, SwampName: s, Patches: []*hydrapb.TreasurePatch{{Key: "a"}}, Meta: &hydrapb.PatchMeta{SetExpiredAt: nsTS(times["P1"])}})
			},
			func(m *c30model) {
				if _, ok := m.exp["a"]; ok {
					m.exp["a"] = times["P1"]
				}
			}},
		c30op{"Patch(a,SetExpiredAt=F3)",
			func(r *rigT, s string) {
				r.gw.PatchTreasures(bg, &hydrapb.PatchTreasuresRequest{IslandID: 1, SwampName: s, Patches: []*hydrapb.TreasurePatch{{Key: "a"}}, Meta: &hydrapb.PatchMeta{SetExpiredAt: nsTS(times["F3"])}})
			},
			func(m *c30model) {
				if _, ok := m.exp["a"]; ok {
					m.exp["a"] = times["F3"]
				}
			}},
		c30op{"Patch(a,ClearExpiredAt)",
			func(r *rigT, s string) {
				r.gw.PatchTreasures(bg, &hydrapb.PatchTreasuresRequest{IslandID: 1, SwampName: s, Patches: []*hydrapb.TreasurePatch{{Key: "a"}}, Meta: &hydrapb.PatchMeta{ClearExpiredAt: true}})
			},
			func(m *c30model) {
				if _, ok := m.exp["a"]; ok {
					m.exp["a"] = 0
				}
			}},
		c30op{"ReadExpiryIndex", // builds the expiry index mid-history
			func(r *rigT, s string) {
				r.gw.GetByIndex(bg, &hydrapb.GetByIndexRequest{IslandID: 1, SwampName: s, IndexType: hydrapb.IndexType_EXPIRATION_TIME})
				r.gw.GetByIndex(bg, &hydrapb.GetByIndexRequest{IslandID: 1, SwampName: s, IndexType: hydrapb.IndexType_EXPIRATION_TIME, OrderType: hydrapb.OrderType_DESC})
			},
			func(m *c30model) { m.built = len(m.exp) > 0 }},
		c30op{"CloseAndReopen", func(r *rigT, s string) { r.closeSwamp(s) }, func(m *c30model) { m.built, m.reloaded = false, len(m.exp) > 0 }},
		c30op{"AdvanceClock(2s)", func(r *rigT, s string) { vrt.Advance(2e9) }, func(m *c30model) { m.clock += 2e9 }},
	)
	return ops
}

func keysOf(ts []*hydrapb.Treasure) string {
	var ks []string
	for _, t := range ts {
		ks = append(ks, t.Key)
	}
	return "[" + strings.Join(ks, " ") + "]"
}

func sortedKeysOf(ts []*hydrapb.Treasure) string {
	var ks []string
	for _, t := range ts {
		ks = append(ks, t.Key)
	}
	sort.Strings(ks)
	return "[" + strings.Join(ks, " ") + "]"
}

// c30observe asks every expiry-aware path; returns name -> answer, paired with the model's answer.
func c30observe(r *rigT, swamp string, m *c30model) (names, real, want []string) {
	add := func(n, re, w string) { names, real, want = append(names, n), append(real, re), append(want, w) }
	now := m.now()
	var all, withExp, expired, future []string
	for k, e := range m.exp {
		all = append(all, k)
		if e != 0 {
			withExp = append(withExp, k)
			if e < now {
				expired = append(expired, k)
			} else {
				future = append(future, k)
			}
		}
	}
	byExp := func(ks []string, desc bool) string {
		s := append([]string(nil), ks...)
		sort.Slice(s, func(i, j int) bool {
			if m.exp[s[i]] == m.exp[s[j]] {
				return false
			}
			return (m.exp[s[i]] < m.exp[s[j]]) != desc
		})
		// ties: render tie groups sorted so that order inside a tie does not matter
		var out []string
		for i := 0; i < len(s); {
			j := i
			for j < len(s) && m.exp[s[j]] == m.exp[s[i]] {
				j++
			}
			g := append([]string(nil), s[i:j]...)
			sort.Strings(g)
			out = append(out, g...)
			i = j
		}
		return "[" + strings.Join(out, " ") + "]"
	}
	tieNorm := func(ts []*hydrapb.Treasure) string {
		// normalise order inside groups of equal expiry
		var out []string
		for i := 0; i < len(ts); {
			j := i
			for j < len(ts) && tsStr(ts[j].ExpiredAt) == tsStr(ts[i].ExpiredAt) {
				j++
			}
			var g []string
			for _, t := range ts[i:j] {
				g = append(g, t.Key)
			}
			sort.Strings(g)
			out = append(out, g...)
			i = j
		}
		return "[" + strings.Join(out, " ") + "]"
	}
	set := func(ks []string) string { s := append([]string(nil), ks...); sort.Strings(s); return "[" + strings.Join(s, " ") + "]" }
	if len(all) == 0 {
		return
	}
	for _, k := range []string{"a", "b"} {
		g, err := r.gw.Get(bg, &hydrapb.GetRequest{Swamps: []*hydrapb.GetSwamp{{IslandID: 1, SwampName: swamp, Keys: []string{k}}}})
		re := "?"
		if err != nil {
			re = errStr(err)
		} else if t := g.Swamps[0].Treasures[0]; !t.IsExist {
			re = "absent"
		} else {
			re = "expiry=" + tsStr(t.ExpiredAt)
		}
		w := "absent"
		if e, ok := m.exp[k]; ok {
			w = "expiry=" + nsStr(e)
		}
		add("Get("+k+").ExpiredAt", re, w)
	}
	idx := func(desc bool, from, to int64) string {
		req := &hydrapb.GetByIndexRequest{IslandID: 1, SwampName: swamp, IndexType: hydrapb.IndexType_EXPIRATION_TIME}
		if desc {
			req.OrderType = hydrapb.OrderType_DESC
		}
		if from != 0 {
			req.FromTime = nsTS(from)
		}
		if to != 0 {
			req.ToTime = nsTS(to)
		}
		resp, err := r.gw.GetByIndex(bg, req)
		if err != nil {
			return errStr(err)
		}
		return tieNorm(resp.Treasures)
	}
	add("GetByIndex(EXPIRATION ASC)", idx(false, 0, 0), byExp(withExp, false))
	add("GetByIndex(EXPIRATION DESC)", idx(true, 0, 0), byExp(withExp, true))
	add("GetByIndex(EXPIRATION ASC, to=now)", idx(false, 0, now), byExp(expired, false))
	add("GetByIndex(EXPIRATION DESC, from=now)", idx(true, now, 0), byExp(future, true))
	stream := func(op hydrapb.Relational_Operator) string {
		fs := &fakeStream[hydrapb.GetByIndexStreamResponse]{}
		err := r.gw.GetByIndexStream(&hydrapb.GetByIndexStreamRequest{IslandID: 1, SwampName: swamp, IndexType: hydrapb.IndexType_KEY,
			Filters: &hydrapb.FilterGroup{Filters: []*hydrapb.TreasureFilter{{Operator: op, CompareValue: &hydrapb.TreasureFilter_ExpiredAtVal{ExpiredAtVal: nsTS(now)}}}}}, fs)
		if err != nil {
			return errStr(err)
		}
		var ts []*hydrapb.Treasure
		for _, x := range fs.sent {
			ts = append(ts, x.Treasure)
		}
		return sortedKeysOf(ts)
	}
	add("Stream(filter ExpiredAt < now)", stream(hydrapb.Relational_LESS_THAN), set(expired))
	add("Stream(filter ExpiredAt >= now)", stream(hydrapb.Relational_GREATER_THAN_OR_EQUAL), set(future))
	// mutating paths last: expired-patch (metadata only), then expired-shift
	pe, err := r.gw.PatchExpiredTreasures(bg, &hydrapb.PatchExpiredTreasuresRequest{IslandID: 1, SwampName: swamp, Meta: &hydrapb.PatchMeta{SetUpdatedBy: p("px")}})
	if err != nil {
		add("PatchExpiredTreasures(meta only)", errStr(err), set(expired))
	} else {
		var ks []string
		for _, e := range pe.Patched {
			ks = append(ks, e.Key)
		}
		sort.Strings(ks)
		add("PatchExpiredTreasures(meta only)", "["+strings.Join(ks, " ")+"]", set(expired))
	}
	add("GetByIndex(EXPIRATION ASC) after expired-patch", idx(false, 0, 0), byExp(withExp, false))
	se, err := r.gw.ShiftExpiredTreasures(bg, &hydrapb.ShiftExpiredTreasuresRequest{IslandID: 1, SwampName: swamp})
	if err != nil {
		add("ShiftExpiredTreasures(all)", errStr(err), set(expired))
	} else {
		add("ShiftExpiredTreasures(all)", sortedKeysOf(se.Treasures), set(expired))
	}
	var rest []string
	for _, k := range all {
		if !m.expired(k) {
			rest = append(rest, k)
		}
	}
	ga, err := r.gw.GetAll(bg, &hydrapb.GetAllRequest{IslandID: 1, SwampName: swamp})
	if err != nil {
		re := errStr(err)
		if len(rest) == 0 {
			re = "[]" // the emptied swamp is gone
		}
		add("GetAll after expired-shift", re, set(rest))
	} else {
		add("GetAll after expired-shift", sortedKeysOf(ga.Treasures), set(rest))
	}
	return
}

func TestC30(t *testing.T) {
	rigSetup()
	quietLogs()
	r := kit.Start("C30", "model_checking")
	defer r.Finish()
	ops := c30ops()
	depth := 4
	if !r.Quick() {
		depth = 6
	}
	r.Extra["alphabet_size"] = len(ops)
	r.Extra["depth"] = depth
	r.Rule = fmt.Sprintf("breadth-first search over model states (expiry of a msgpack record a and of an int32 record b, each in {no record, none, now0-2s, now0-1s, now0+2s (equal to the clock after one advance), now0+3s}, and the virtual clock), %d operations (create/overwrite with each expiry through PatchTreasures and Set; Set with a zero and a pre-epoch timestamp; PatchTreasures SetExpiredAt past/future and ClearExpiredAt; ReadExpiryIndex which builds the index mid-history; swamp close and re-summon; advancing the clock by 2 s), depth %d, on a persistent swamp of the in-process server; a state is expanded once; after replaying the history on a fresh swamp EVERY expiry-aware path is asked: ExpiredAt echoed by Get, GetByIndex EXPIRATION_TIME ASC/DESC, the same with to=now and from=now, GetByIndexStream with filters ExpiredAt<now and ExpiredAt>=now, PatchExpiredTreasures (metadata only), the index again, ShiftExpiredTreasures, GetAll. Oracle: one predicate, expired <=> expiry != 0 and expiry < now; a record without expiry appears in no expiry path. Non-trivial = states with at least one record that has an expiry", len(ops), depth)
	r.Assumptions = []string{"the clock only moves through the AdvanceClock symbol (virtual clock)", "records with equal expiry may come in any order"}
	first := !r.IsWorker() || r.Mine(0)
	r.Parallel(16, "TestC30", func() {
		seen := map[string]bool{(&c30model{exp: map[string]int64{}}).canon(): true}
		frontier := [][]int{{}}
		for d := 1; d <= depth; d++ {
			last := d == depth
			count := last || first
			var hists [][]int
			for _, h := range frontier {
				for o := range ops {
					hists = append(hists, append(append([]int{}, h...), o))
				}
			}
			type res struct {
				canon              string
				names, real, want  []string
				withExp            bool
			}
			results := make([]*res, len(hists))
			want := func(i int) bool { return (!last || r.Mine(i)) && !r.OutOfTime() }
			bad := rigBatch(len(hists), want, func(rg *rigT, i int) {
				swamp := fmt.Sprintf("dsk/r/h%d", i)
				m := &c30model{exp: map[string]int64{}}
				for _, oi := range hists[i] {
					ops[oi].run(rg, swamp)
					ops[oi].model(m)
				}
				o := &res{canon: m.canon()}
				for _, e := range m.exp {
					o.withExp = o.withExp || e != 0
				}
				o.names, o.real, o.want = c30observe(rg, swamp, m)
				results[i] = o
				rg.destroy(swamp)
			})
			if r.OutOfTime() {
				r.NotExhaustive("time budget reached")
				return
			}
			var next [][]int
			for i, hist := range hists {
				var hn []string
				for _, x := range hist {
					hn = append(hn, ops[x].name)
				}
				if x, ok := bad[i]; ok {
					if count {
						r.Eval(1)
						r.Fail("expiry", "request-never-returns-or-panics", fmt.Sprintf("history %v: deadlock=%v blocked=%v panics=%v", hn, x.Deadlock, x.Blocked, x.Panics), map[string]any{"history": hn})
					}
					continue
				}
				o := results[i]
				if o == nil {
					continue
				}
				if !seen[o.canon] {
					seen[o.canon] = true
					next = append(next, hist)
					if count {
						r.Outcome(o.canon)
					}
				}
				if !count {
					continue
				}
				r.Eval(1 + len(o.names))
				r.Count("transitions", 1)
				if o.withExp {
					r.Nontrivial(fmt.Sprint(hist))
				}
				reloaded := ""
				for _, n := range hn {
					if n == "CloseAndReopen" {
						reloaded = ":after-reload"
					}
				}
				for j := range o.names {
					if o.real[j] != o.want[j] {
						path := o.names[j]
						if k := strings.Index(path, "("); k >= 0 {
							path = path[:k]
						}
						r.Fail("expiry", strings.ReplaceAll(o.names[j], " ", "_")+reloaded, fmt.Sprintf("state %s after history %v: %s answers %s, the expiry predicate says %s", o.canon, hn, o.names[j], o.real[j], o.want[j]),
							map[string]any{"history": hn, "state": o.canon, "path": o.names[j], "answer": o.real[j], "expected": o.want[j]})
						break
					}
				}
				if d == 2 && o.withExp {
					r.Sample(map[string]any{"history": hn, "state": o.canon, "paths": o.names, "answers": o.real})
				}
			}
			frontier = next
			if first {
				r.Count("model_states", int64(len(next)))
			}
		}
	})
}
