package props

import (
	"fmt"
	"os"
	"sort"
	"strings"
	"testing"
	"time"

	"github.com/hydraide/hydraide/app/core/settings"
	"github.com/hydraide/hydraide/app/core/settings/setting"
	"github.com/hydraide/hydraide/app/name"
	"github.com/hydraide/hydraide/app/vshim/vmap"
	"github.com/hydraide/hydraide/app/vshim/vos"
	"verifharness/kit"
)

// C21 — swamp settings resolve deterministically from registered patterns.
// Every non-empty subset of five overlapping patterns (pairwise distinct settings) x every registration order
// x re-registration of one pattern with new settings x EVERY iteration order of the settings' pattern map
// (the `range s.patterns` in GetBySwampName is an owned iteration site) x restart from the persisted file.

var c21patterns = []string{"s/r/w", "s/r/*", "s/*/w", "s/*/*", "t/*/*"}

func c21load(p string) name.Name { return name.Load(p) }

func perms(n int) [][]int {
	var out [][]int
	a := make([]int, n)
	for i := range a {
		a[i] = i
	}
	var rec func(k int)
	rec = func(k int) {
		if k == n {
			out = append(out, append([]int(nil), a...))
			return
		}
		for i := k; i < n; i++ {
			a[k], a[i] = a[i], a[k]
			rec(k + 1)
			a[k], a[i] = a[i], a[k]
		}
	}
	rec(0)
	return out
}

// specificity: exact realm and exact swamp count; the comparable part of the order the property states.
func c21spec(p string) int {
	parts := strings.Split(p, "/")
	s := 0
	if parts[1] != "*" {
		s++
	}
	if parts[2] != "*" {
		s++
	}
	return s
}

func c21matches(pattern, n string) bool {
	pp, nn := strings.Split(pattern, "/"), strings.Split(n, "/")
	return pp[0] == nn[0] && (pp[1] == "*" || pp[1] == nn[1]) && (pp[2] == "*" || pp[2] == nn[2])
}

func TestC21(t *testing.T) {
	quietLogs()
	os.Setenv("HYDRAIDE_ROOT_PATH", rigRoot)
	r := kit.Start("C21", "exploration")
	defer r.Finish()
	lookups := []string{"s/r/w", "s/r/x", "s/q/w", "s/q/x", "t/a/b", "u/a/b"}
	r.Rule = "every non-empty subset of the patterns " + fmt.Sprint(c21patterns) + " registered with pairwise distinct settings (idle timeout = 100+index s, in-memory for odd indexes) x every registration order x optional re-registration of the first pattern with new settings (other swamp type, idle timeout and write interval), or deregistration of one pattern after every name has been looked up once; for each resulting configuration every lookup of " + fmt.Sprint(lookups) + " is evaluated under EVERY iteration order of the settings' internal pattern map (all permutations; the range statement in GetBySwampName is rewritten to an owned iterator), and again on a fresh settings object loaded from the persisted settings file (restart), again under every iteration order. Oracle: one answer per (set of registered patterns, name) whatever the registration order, iteration order or restart; it carries the values of the latest registration of a most specific matching pattern (exact realm+swamp > one wildcard > two wildcards), the default when nothing matches. Non-trivial = lookups with at least two matching patterns"
	r.Assumptions = []string{"between two patterns with one wildcard each (s/r/* vs s/*/w) the property states no order: any answer is accepted as long as it is the same under every order and after restart"}
	type cfg struct {
		order []int // indexes into c21patterns, in registration order
		rereg bool
		dereg int // index of a pattern deregistered after every name has been looked up once (-1: none)
	}
	var cfgs []cfg
	for mask := 1; mask < 1<<len(c21patterns); mask++ {
		var sub []int
		for i := range c21patterns {
			if mask&(1<<i) != 0 {
				sub = append(sub, i)
			}
		}
		for _, pm := range perms(len(sub)) {
			o := make([]int, len(sub))
			for i, j := range pm {
				o[i] = sub[j]
			}
			cfgs = append(cfgs, cfg{o, false, -1}, cfg{o, true, -1})
			if len(o) >= 2 {
				// deregister each registered pattern in turn (after the lookups have been answered once)
				for _, d := range o {
					cfgs = append(cfgs, cfg{o, false, d})
				}
			}
		}
	}
	r.Extra["configurations"] = len(cfgs)
	// answers[subset|rereg][lookup] -> set of answers seen across everything
	type key struct{ set, lookup string }
	answers := map[key]map[string]string{}
	answer := func(s settings.Settings, n string) string {
		st := s.GetBySwampName(c21load(n))
		return fmt.Sprintf("pattern=%s idle=%v inmem=%v write=%v", st.GetPattern().Get(), st.GetCloseAfterIdle(), st.GetSwampType(), st.GetWriteInterval())
	}
	for ci, c := range cfgs {
		if r.OutOfTime() {
			r.NotExhaustive("time budget reached")
			break
		}
		vos.UseMem()
		vmap.Perm = nil
		s := settings.New(2, 100)
		idle := func(i int) int64 { return int64(100 + i) }
		// registered[pattern] = the values of its LATEST registration, as the answers print them
		registered := map[string]string{}
		register := func(pi int, inMem bool, idleSec, writeSec int64) {
			s.RegisterPattern(c21load(c21patterns[pi]), inMem, idleSec, &settings.FileSystemSettings{WriteIntervalSec: writeSec, MaxFileSizeByte: 8192})
			if inMem {
				registered[c21patterns[pi]] = fmt.Sprintf("idle=%v inmem=%v", time.Duration(idleSec)*time.Second, setting.InMemorySwamp)
			} else {
				registered[c21patterns[pi]] = fmt.Sprintf("idle=%v inmem=%v write=%v", time.Duration(idleSec)*time.Second, setting.PermanentSwamp, time.Duration(writeSec)*time.Second)
			}
		}
		for _, pi := range c.order {
			register(pi, pi%2 == 1, idle(pi), int64(1+pi))
		}
		if c.rereg {
			// every value changes, the swamp type included
			pi := c.order[0]
			register(pi, pi%2 != 1, 900, int64(50+pi))
		}
		if c.dereg >= 0 {
			for _, ln := range lookups {
				s.GetBySwampName(c21load(ln)) // every name has been resolved once while the pattern was registered
			}
			s.DeregisterPattern(c21load(c21patterns[c.dereg]))
			var rest []int
			for _, pi := range c.order {
				if pi != c.dereg {
					rest = append(rest, pi)
				}
			}
			c.order = rest
		}
		sorted := append([]int(nil), c.order...)
		sort.Ints(sorted)
		setKey := fmt.Sprintf("%v rereg=%v first=%d", sorted, c.rereg, map[bool]int{true: c.order[0], false: -1}[c.rereg])
		restarted := settings.New(2, 100) // loads the persisted file
		objs := map[string]settings.Settings{"live": s, "restarted": restarted}
		ps := perms(len(c.order))
		for _, ln := range lookups {
			nmatch := 0
			best := -1
			for _, pi := range c.order {
				if c21matches(c21patterns[pi], ln) {
					nmatch++
					if sp := c21spec(c21patterns[pi]); sp > best {
						best = sp
					}
				}
			}
			k := key{setKey, ln}
			if answers[k] == nil {
				answers[k] = map[string]string{}
			}
			for on, obj := range objs {
				for _, pm := range ps {
					pm := pm
					vmap.Perm = func(site string, n int) []int {
						if site == "settings.GetBySwampName" && n == len(pm) {
							return pm
						}
						return nil
					}
					a := answer(obj, ln)
					vmap.Perm = nil
					r.Eval(1)
					if nmatch >= 2 {
						r.Nontrivial(fmt.Sprintf("%s|%s|%v|%s", setKey, ln, pm, on))
					}
					r.Outcome(a)
					if _, ok := answers[k][a]; !ok {
						answers[k][a] = fmt.Sprintf("registration order %v, map iteration order %v, %s object", c.order, pm, on)
					}
					// most specific matching pattern
					got := strings.TrimPrefix(strings.Fields(a)[0], "pattern=")
					cs := map[string]any{"registered": names(c.order), "reregistered_first": c.rereg, "lookup": ln, "iteration_order": pm, "object": on, "answer": a}
					if nmatch == 0 {
						if got != ln {
							r.Fail("resolve", "no-match-but-not-default", fmt.Sprintf("lookup %s with patterns %v answers %s", ln, names(c.order), a), cs)
						}
						continue
					}
					if !c21matches(got, ln) || !inList(names(c.order), got) {
						r.Fail("resolve", "answer-is-not-a-matching-registered-pattern", fmt.Sprintf("lookup %s with patterns %v answers %s", ln, names(c.order), a), cs)
						continue
					}
					if want := registered[got]; !strings.Contains(a, want) {
						d := "values-differ-from-the-latest-registration"
						if on == "restarted" {
							d += ":after-restart"
						}
						r.Fail("resolve", d, fmt.Sprintf("lookup %s with patterns %v (registration order %v, first re-registered %v, %s object): %s, but pattern %s was last registered with %s", ln, names(sorted), names(c.order), c.rereg, on, a, got, want), cs)
					}
					if c21spec(got) < best {
						d := "less-specific-pattern-wins"
						if on == "restarted" {
							d += ":after-restart"
						}
						r.Fail("resolve", d, fmt.Sprintf("lookup %s with patterns %v (registration order %v, map order %v, %s): %s although a more specific pattern matches", ln, names(sorted), names(c.order), pm, on, a), cs)
					}
				}
			}
		}
		if ci == 17 {
			r.Sample(map[string]any{"registered_in_order": names(c.order), "reregistered_first": c.rereg, "lookups": lookups, "iteration_orders": len(ps)})
		}
	}
	vmap.Perm = nil
	for k, as := range answers {
		if len(as) > 1 {
			var l []string
			for a, where := range as {
				l = append(l, a+" ("+where+")")
			}
			sort.Strings(l)
			r.Fail("resolve", "answer-depends-on-order-or-restart", fmt.Sprintf("patterns %s, lookup %s: %d different answers: %s", k.set, k.lookup, len(as), strings.Join(l, " ; ")), map[string]any{"set": k.set, "lookup": k.lookup, "answers": l})
		}
	}
}

func names(idx []int) []string {
	var out []string
	for _, i := range idx {
		out = append(out, c21patterns[i])
	}
	return out
}
