package props

import (
	"bytes"
	"errors"
	"fmt"
	"math"
	"strings"
	"testing"

	"github.com/hydraide/hydraide/app/core/hydra/swamp/treasure/msgpackpatch"
	hydrapb "github.com/hydraide/hydraide/sdk/go/hydraidego/v3/hydraidepbgo"
	"verifharness/kit"
)

// C13 — structural patch matches its documented semantics.
// Exhaustive enumeration of (document, condition, op sequence) triples over a finite alphabet against the
// independent reference model of c13ref_test.go, on the real msgpackpatch.ApplyWithCondition.

type c13doc struct {
	name string
	blob []byte
}

type c13numk struct {
	name string
	raw  []byte
}

var c13nums = []c13numk{
	{"posfix5", []byte{0x05}}, {"negfix-3", []byte{0xfd}}, {"u8:200", mU8(200)}, {"u8:255", mU8(255)}, {"u16:300", mU16(300)},
	{"u32:70000", mU32(70000)}, {"u64:2^40", mU64(1 << 40)}, {"i8:-100", mI8(-100)}, {"i8:127", mI8(127)}, {"i16:-300", mI16(-300)},
	{"i32:70000", mI32(70000)}, {"i64:-2^40", mI64(-(1 << 40))}, {"f32:1.5", mF32(1.5)}, {"f64:2.25", mF64(2.25)}, {"f64:NaN", mF64(math.NaN())},
}

func c13rich(k []byte) []byte {
	return mMap(
		mStr("n"), k,
		mStr("s"), mStr("ab"),
		mStr("b"), mTrue,
		mStr("z"), mNil,
		mStr("t"), mArr(mU8(1), mStr("x"), k, mArr([]byte{0x07}), mMap(mStr("q"), []byte{0x01})),
		mStr("m"), mMap(mStr("x"), k, mStr("y"), mMap(mStr("d"), mBin(1, 2))),
		mStr("e"), mArr(),
		mStr("x"), mTime,
	)
}

func c13docs(quick bool) []c13doc {
	var out []c13doc
	for _, k := range c13nums {
		out = append(out, c13doc{"rich(" + k.name + ")", c13rich(k.raw)})
	}
	seq := func(n int) [][]byte {
		var v [][]byte
		for i := 0; i < n; i++ {
			v = append(v, []byte{byte(i)})
		}
		return v
	}
	fields := func(n int) [][]byte {
		var v [][]byte
		for i := 0; i < n; i++ {
			v = append(v, mStr(fmt.Sprintf("f%d", i)), mI8(int8(i)))
		}
		return v
	}
	out = append(out,
		c13doc{"empty", mMap()},
		c13doc{"a=1", mMap(mStr("a"), []byte{0x01})},
		c13doc{"map16-header", mMap16(mStr("n"), mI16(7), mStr("t"), mArr(mU8(1)), mStr("m"), mMap16())},
		c13doc{"str8-keys", mMap(mStr8("n"), mI8(1), mStr8("t"), mArr(mStr8("x")), mStr8("m"), mMap(mStr8("x"), mU8(2)))},
		c13doc{"t15", mMap(mStr("t"), mArr(seq(15)...), mStr("n"), mU8(1))},
		c13doc{"t16", mMap(mStr("t"), mArr(seq(16)...), mStr("n"), mU8(1))},
		c13doc{"fields15", mMap(append(fields(14), mStr("t"), mArr())...)},
		c13doc{"fields16", mCat(append([][]byte{{0xde, 0, 16}}, append(fields(15), mStr("m"), mMap())...)...)},
		c13doc{"nonstring-key", mMap([]byte{0x01}, []byte{0x02}, mStr("n"), mI8(1))},
		c13doc{"nested-nonstring-key", mMap(mStr("n"), mI8(1), mStr("m"), mMap([]byte{0x01}, []byte{0x02}))},
	)
	return out
}

var c13paths = []string{
	"n", "s", "t", "m", "e", "x", "q", "m.x", "m.y", "m.y.d", "m.q", "m.q.r", "q.r.s", "n.x", "s.q.r",
	"t[0]", "t[2]", "t[-1]", "t[4]", "t[5]", "t[-5]", "t[-6]", "t[15]", "t[3][0]", "t[3][1]", "t[4].q", "t[4].z", "t[0].x",
	"t[]", "e[]", "q[]", "m[]", "n[]", "q.r[]", "m.y.d[]", "t[3][]", "t[][0]", "e[0]", "m[0]", "q[0]", "q[0].x", "f3", "f15",
	"", ".", "a..b", "t[*]", "#len", "t.#len", "t[x]", "t[1", "[0]", "t]0[", "t[0]x",
}

type c13val struct {
	name string
	raw  []byte
}

func c13values() []c13val {
	v := []c13val{
		{"u8:1", mU8(1)}, {"i8:1", mI8(1)}, {"i8:-1", mI8(-1)}, {"posfix1", []byte{0x01}}, {"negfix-1", []byte{0xff}},
		{"u64:max", mU64(math.MaxUint64)}, {"i64:max", mI64(math.MaxInt64)}, {"i64:min", mI64(math.MinInt64)}, {"i16:1000", mI16(1000)}, {"u16:1000", mU16(1000)},
		{"f64:1.5", mF64(1.5)}, {"f32:0.5", mF32(0.5)}, {"f64:NaN", mF64(math.NaN())}, {"f64:+Inf", mF64(math.Inf(1))}, {"f64:1e300", mF64(1e300)},
		{"str:x", mStr("x")}, {"str:ab", mStr("ab")}, {"str8:x", mStr8("x")}, {"true", mTrue}, {"false", mFalse}, {"nil", mNil},
		{"map{x:9,k:v}", mMap(mStr("x"), []byte{0x09}, mStr("k"), mStr("v"))}, {"map{}", mMap()}, {"map{x:{deep:1}}", mMap(mStr("x"), mMap(mStr("deep"), []byte{0x01}))},
		{"map{x:1,x:2}", mMap(mStr("x"), []byte{0x01}, mStr("x"), []byte{0x02})}, {"map{1:2}", mMap([]byte{0x01}, []byte{0x02})}, {"map{q:1}", mMap(mStr("q"), []byte{0x01})},
		{"arr[7]", mArr([]byte{0x07})}, {"arr[]", mArr()}, {"bin(1,2)", mBin(1, 2)}, {"time", mTime},
		{"bad:empty", nil}, {"bad:c1", []byte{0xc1}}, {"bad:str-truncated", []byte{0xd9, 0x05, 'a'}}, {"bad:two-values", []byte{0x01, 0x02}},
		{"bad:map-truncated", []byte{0x81, 0xa1, 'k'}}, {"bad:array-truncated", []byte{0x92, 0x01}}, {"bad:float-truncated", []byte{0xcb, 0x00}},
		{"bad:map+trailing", append(mMap(mStr("x"), []byte{0x09}), 0x01)},
	}
	for _, k := range c13nums {
		v = append(v, c13val{"same:" + k.name, k.raw})
	}
	return v
}

func c13class(err error) string {
	switch {
	case err == nil:
		return ""
	case errors.Is(err, msgpackpatch.ErrConditionNotMet):
		return "notmet"
	case errors.Is(err, msgpackpatch.ErrTypeMismatch):
		return "type"
	case errors.Is(err, msgpackpatch.ErrPathInvalid):
		return "path"
	case errors.Is(err, msgpackpatch.ErrInvalidOp):
		return "invalid-op"
	case errors.Is(err, msgpackpatch.ErrNonStringKey):
		return "nonstr"
	case errors.Is(err, msgpackpatch.ErrInvalidMsgpack):
		return "msgpack"
	}
	return "other"
}

func c13reason(d string) string {
	for _, p := range []string{"numeric type code changed", "numeric class changed", "INC result", "leaf bytes differ", "array length differs", "map size differs", "kind differs", "key #"} {
		if strings.Contains(d, p) {
			return strings.ReplaceAll(strings.TrimSuffix(p, " #"), " ", "-")
		}
	}
	return "other"
}

type c13case struct {
	doc  c13doc
	cond *rcond
	ops  []rop
}

func (c c13case) String() string {
	s := "doc " + c.doc.name
	if c.cond != nil {
		s += " if " + c.cond.String()
	}
	return s + fmt.Sprintf(" ops %v", c.ops)
}

// c13verdict is the judgement of one case.
type c13verdict struct {
	out     []byte // real output (nil on failure)
	sig     string // "" = conforms
	msg     string
	cs      map[string]any
	outcome string
	unspec  bool
}

func c13tag(c c13case) string {
	tag := "no-op"
	if len(c.ops) > 0 {
		tag = ropNames[c.ops[len(c.ops)-1].kind] // the last op of the (shortest diverging) sequence
	}
	if c.cond != nil {
		tag = "if-" + rcondNames[c.cond.op]
	}
	return tag
}

// c13judge runs one case on the real code and on the reference and compares.
func c13judge(c c13case) c13verdict {
	in := append([]byte(nil), c.doc.blob...)
	var ops []msgpackpatch.Op
	for _, o := range c.ops {
		ops = append(ops, msgpackpatch.Op{Kind: msgpackpatch.OpKind(o.kind), Path: o.path, Value: o.value})
	}
	var cond *msgpackpatch.Condition
	if c.cond != nil {
		cond = &msgpackpatch.Condition{Path: c.cond.path, Op: msgpackpatch.CondOp(c.cond.op), Threshold: c.cond.thr}
	}
	var out []byte
	var err error
	panicked := ""
	func() {
		defer func() {
			if p := recover(); p != nil {
				panicked = fmt.Sprint(p)
			}
		}()
		out, err = msgpackpatch.ApplyWithCondition(in, ops, cond)
	}()
	tag := c13tag(c)
	v := c13verdict{cs: map[string]any{"document": c.doc.name, "document_bytes": fmt.Sprintf("%x", c.doc.blob), "case": c.String()}}
	cs := v.cs
	fail := func(sig, msg string) c13verdict { v.sig, v.msg = sig, msg; return v }
	if panicked != "" {
		return fail("panic:"+tag, fmt.Sprintf("%v: ApplyWithCondition panicked: %s", c, panicked))
	}
	if !bytes.Equal(in, c.doc.blob) {
		return fail("input-blob-modified:"+tag, fmt.Sprintf("%v: the input blob was modified in place", c))
	}
	got := c13class(err)
	cs["real_result"] = got
	if err != nil {
		cs["real_error"] = err.Error()
		out = nil
	}
	v.out = out
	var gotDoc *rnode
	if err == nil {
		cs["real_output"] = fmt.Sprintf("%x", out)
		gd, _, perr := rwhole(out)
		if perr != nil {
			v.out = nil
			return fail("success-with-malformed-body:"+tag, fmt.Sprintf("%v: reported success, but the new body %x is not well-formed msgpack", c, out))
		}
		gotDoc = gd
	}
	// ---- reference ----
	doc0, nonStr, perr := rwhole(c.doc.blob)
	if perr != nil {
		panic("harness: malformed base document " + c.doc.name)
	}
	exp, unspec := "", false
	expDoc := doc0.clone()
	if nonStr {
		exp = "nonstr"
	}
	if exp == "" && c.cond != nil {
		res, u := rcondEval(doc0, *c.cond)
		unspec = u
		if res != "met" {
			exp = res
		}
	}
	failedOp := -1
	if exp == "" && !unspec {
		for i, o := range c.ops {
			e, u := rapply(expDoc, o)
			if u {
				unspec = true
				break
			}
			if e != "" {
				exp, failedOp = e, i
				break
			}
		}
	}
	cs["reference_result"] = exp
	v.outcome = fmt.Sprintf("%s/ref=%s/real=%s/unspec=%v", tag, exp, got, unspec)
	v.unspec = unspec
	if unspec {
		return v
	}
	switch {
	case exp == "" && err != nil:
		return fail(fmt.Sprintf("fails-but-documented-to-succeed:%s:%s", tag, got), fmt.Sprintf("%v: the documented semantics give %s; the real code fails with %v", c, expDoc, err))
	case exp == "" && err == nil:
		if d := rsame(expDoc, gotDoc); d != "" {
			cs["reference_document"] = expDoc.String()
			return fail(fmt.Sprintf("result-differs:%s:%s", tag, c13reason(d)), fmt.Sprintf("%v: %s (documented result %s, real result %s)", c, d, expDoc, gotDoc))
		}
	case exp != "" && err == nil:
		what := exp
		if failedOp >= 0 {
			what = fmt.Sprintf("%s at op #%d", exp, failedOp)
		}
		return fail(fmt.Sprintf("succeeds-but-documented-to-fail:%s:%s", tag, exp), fmt.Sprintf("%v: documented outcome is a failure (%s); the real code reports success with body %s", c, what, gotDoc))
	case (exp == "notmet") != (got == "notmet"):
		return fail(fmt.Sprintf("condition-outcome-differs:%s:ref=%s:real=%s", tag, exp, got), fmt.Sprintf("%v: documented outcome %s, real outcome %s (%v)", c, exp, got, err))
	case exp != got:
		v.outcome += "/other-error-class"
	}
	return v
}

// c13check judges one case and reports. A diverging op sequence is attributed to its shortest diverging prefix,
// so that one defect has one signature however many sequences contain it.
func c13check(r *kit.Run, c c13case) []byte {
	r.Eval(1)
	v := c13judge(c)
	if v.outcome != "" {
		r.Outcome(v.outcome)
	}
	if v.unspec {
		r.Count("cases_the_documentation_leaves_open", 1)
		return v.out
	}
	r.Nontrivial(c.String())
	if strings.HasSuffix(v.outcome, "/other-error-class") {
		r.Count("failures_reported_under_another_error_class", 1)
	}
	if v.sig == "" {
		return v.out
	}
	for n := 1; n < len(c.ops); n++ {
		pv := c13judge(c13case{doc: c.doc, cond: c.cond, ops: c.ops[:n]})
		if pv.sig != "" {
			pv.cs["found_in_sequence"] = c.String()
			r.Fail("patch", pv.sig, pv.msg, pv.cs)
			return v.out
		}
	}
	sig := v.sig
	if len(c.ops) > 1 {
		sig = "only-in-sequence:" + sig
	}
	r.Fail("patch", sig, v.msg, v.cs)
	return v.out
}

func TestC13(t *testing.T) {
	quietLogs()
	r := kit.Start("C13", "exploration")
	defer r.Finish()
	docs := c13docs(r.Quick())
	vals := c13values()
	// reduced alphabets for sequences
	seqPaths := []string{"n", "t", "m", "q", "m.x", "m.q.r", "t[0]", "t[2]", "t[-1]", "t[4].q", "t[]", "q[]", "t[3][]", "t[5]"}
	seqVals := [][]byte{mI8(1), mU8(1), mF64(1.5), mStr("x"), mMap(mStr("x"), []byte{0x09}, mStr("k"), mStr("v")), mArr([]byte{0x07}), {0xd9, 0x05, 'a'}}
	var seqOps []rop
	for k := 0; k < 8; k++ {
		for _, p := range seqPaths {
			if k == 1 || k == 5 {
				seqOps = append(seqOps, rop{k, p, nil})
				continue
			}
			for _, v := range seqVals {
				seqOps = append(seqOps, rop{k, p, v})
			}
		}
	}
	tripleOps := seqOps
	if r.Quick() {
		tripleOps = nil
		for i, o := range seqOps {
			if i%7 == 0 || o.kind == 1 || o.kind == 5 {
				tripleOps = append(tripleOps, o)
			}
		}
	}
	condPaths := []string{"n", "s", "b", "z", "x", "t", "m", "q", "m.x", "m.y.d", "t[0]", "t[2]", "t[5]", "t[4].q", "n.x", "t[]", "", "t[*]"}
	r.Rule = fmt.Sprintf("real msgpackpatch.ApplyWithCondition against an independent reference document model (own msgpack reader; documented semantics of the 8 ops and 8 condition operators). Documents: %d (a rich document {n:<num>, s:str, b:bool, z:nil, t:[u8,str,<num>,[7],{q:1}], m:{x:<num>, y:{d:bin}}, e:[], x:time-ext} for each of %d numeric encodings incl. fix-ints, every int/uint width, float32/64, NaN and width-edge values; empty map; map16/array16/str8 header forms; 15/16-element arrays and maps (header-width boundary); maps with a non-string key). (1) EVERY single op: 8 kinds x %d paths (fields, nested, missing, through-a-leaf, positive/negative/out-of-range indices, append markers in every position, 11 malformed paths) x %d values (every numeric class/width, NaN/Inf, strings, bool, nil, maps incl. duplicate and non-string keys, arrays, bin, ext, 8 malformed byte strings) on every document; (2) EVERY ordered pair over a reduced alphabet of %d ops on 4 documents, each pair also checked differentially (Apply(doc,[a,b]) == Apply(Apply(doc,[a]),[b])); (3) every ordered triple over %d ops on 2 documents; (4) EVERY condition: 8 operators x %d paths x all values as threshold on every document, with one SET behind it (applied iff the condition holds); (5) the reduced op alphabet, a sample of pairs and 320 conditions on 3 documents sent as PatchTreasures requests to the in-process server: answered status and stored body against the library result (PATCHED <=> success and the stored body is the new document; any failure leaves the stored body byte-identical and carries the status of its error class). Oracle: success/failure as documented; on success the result document equals the reference document (same nesting and key order, every untouched leaf byte-identical, INC results with the target's type code and the exact sum); a failing op or unmet condition yields no new body; every reported success is well-formed msgpack; CONDITION_NOT_MET is distinguished from errors; the input blob is never modified; no panic. Cases the documentation leaves open (malformed value bytes: only 'success => well-formed' is required; arithmetic overflow of the target width; out-of-range index under EXISTS) are counted, not judged", len(docs), len(c13nums), len(c13paths), len(vals), len(seqOps), len(tripleOps), len(condPaths))
	r.Assumptions = []string{"finite alphabets of paths and values as listed (small-scope hypothesis)", "error classes other than CONDITION_NOT_MET are not compared with the reference (the documentation does not fix which of several applicable errors is reported)"}
	type job func()
	var jobs []job
	// (1) single ops
	for _, d := range docs {
		d := d
		for k := 0; k < 8; k++ {
			k := k
			jobs = append(jobs, func() {
				for _, p := range c13paths {
					for _, v := range vals {
						c13check(r, c13case{doc: d, ops: []rop{{k, p, v.raw}}})
						if k == 1 || k == 5 {
							break // DELETE / REMOVE_AT ignore the value
						}
					}
				}
			})
		}
	}
	// (2) pairs, (3) triples
	byName := func(n string) c13doc {
		for _, d := range docs {
			if d.name == n {
				return d
			}
		}
		panic(n)
	}
	for _, dn := range []string{"rich(i8:127)", "rich(f32:1.5)", "rich(posfix5)", "t15"} {
		d := byName(dn)
		for i := range seqOps {
			a := seqOps[i]
			jobs = append(jobs, func() {
				for _, b := range seqOps {
					both := c13check(r, c13case{doc: d, ops: []rop{a, b}})
					first := c13check(r, c13case{doc: d, ops: []rop{a}})
					if first == nil {
						continue
					}
					second := c13check(r, c13case{doc: c13doc{d.name + "+" + a.String(), first}, ops: []rop{b}})
					if (both == nil) != (second == nil) || !bytes.Equal(both, second) {
						r.Fail("patch", "batch-differs-from-two-steps:"+ropNames[b.kind]+"-after-"+ropNames[a.kind], fmt.Sprintf("doc %s: Apply([%v,%v]) = %x but applying them one after the other gives %x", d.name, a, b, both, second), map[string]any{"document": d.name, "ops": fmt.Sprint(a, b)})
					}
				}
			})
		}
	}
	for _, dn := range []string{"rich(i8:127)", "map16-header"} {
		d := byName(dn)
		for i := range tripleOps {
			a := tripleOps[i]
			jobs = append(jobs, func() {
				for _, b := range tripleOps {
					for _, c := range tripleOps {
						c13check(r, c13case{doc: d, ops: []rop{a, b, c}})
					}
				}
			})
		}
	}
	// (4) conditions
	for _, d := range docs {
		d := d
		for op := 0; op < 8; op++ {
			op := op
			jobs = append(jobs, func() {
				for _, p := range condPaths {
					for _, v := range vals {
						c13check(r, c13case{doc: d, cond: &rcond{p, op, v.raw}, ops: []rop{{0, "zz", mU8(1)}}})
						if op >= 6 {
							break
						}
					}
				}
			})
		}
	}
	// (5) the same through the server: PatchTreasures status + stored body
	var gwCases []c13case
	for _, dn := range []string{"rich(i8:127)", "rich(f64:NaN)", "fields15"} {
		d := byName(dn)
		for _, o := range seqOps {
			gwCases = append(gwCases, c13case{doc: d, ops: []rop{o}})
		}
		for i := 0; i+1 < len(seqOps); i += 5 {
			gwCases = append(gwCases, c13case{doc: d, ops: []rop{seqOps[i], seqOps[(i*7+3)%len(seqOps)]}})
		}
		for op := 0; op < 8; op++ {
			for _, p := range []string{"n", "s", "t", "q", "m.x", "t[5]", "n.x", ""} {
				for _, v := range [][]byte{mI8(127), mF64(math.NaN()), mStr("ab"), nil, {0xd9, 0x05, 'a'}} {
					gwCases = append(gwCases, c13case{doc: d, cond: &rcond{p, op, v}, ops: []rop{{0, "zz", mU8(1)}}})
				}
			}
		}
	}
	r.Extra["jobs"] = len(jobs)
	r.Extra["gateway_cases"] = len(gwCases)
	rigSetup()
	r.Parallel(16, "TestC13", func() {
		for i, j := range jobs {
			if !r.Mine(i) {
				continue
			}
			if r.OutOfTime() {
				r.NotExhaustive("time budget reached")
				break
			}
			j()
		}
		c13gateway(r, gwCases)
	})
}

var c13statusOf = map[string]hydrapb.PatchResult_StatusCode{
	"": hydrapb.PatchResult_PATCHED, "notmet": hydrapb.PatchResult_CONDITION_NOT_MET, "type": hydrapb.PatchResult_TYPE_MISMATCH,
	"path": hydrapb.PatchResult_PATH_INVALID, "invalid-op": hydrapb.PatchResult_PATH_INVALID,
	"msgpack": hydrapb.PatchResult_ENCODING_NOT_SUPPORTED, "nonstr": hydrapb.PatchResult_ENCODING_NOT_SUPPORTED,
}

// c13gateway sends each case as a PatchTreasures request to the in-process server (record stored with the msgpack
// magic prefix) and compares the answered status and the body stored afterwards with the result of the library call
// (which parts 1-4 compare with the reference): success <=> PATCHED and the stored body is the new document;
// any failure leaves the stored body byte-identical and carries the status of its error class.
func c13gateway(r *kit.Run, cases []c13case) {
	want := func(i int) bool { return r.Mine(i) && !r.OutOfTime() }
	type res struct {
		status hydrapb.PatchResult_StatusCode
		errTxt string
		rpcErr string
		body   []byte
		found  bool
	}
	out := make([]*res, len(cases))
	bad := rigBatch(len(cases), want, func(rg *rigT, i int) {
		c := cases[i]
		swamp := fmt.Sprintf("mem/r/p%d", i)
		rg.gw.Set(bg, &hydrapb.SetRequest{Swamps: []*hydrapb.SwampRequest{{IslandID: 1, SwampName: swamp, CreateIfNotExist: true, Overwrite: true,
			KeyValues: []*hydrapb.KeyValuePair{{Key: "k", BytesVal: append([]byte{0xC7, 0x00}, c.doc.blob...)}}}}})
		tp := &hydrapb.TreasurePatch{Key: "k"}
		for _, o := range c.ops {
			po := &hydrapb.PatchOp{Op: hydrapb.PatchOp_Kind(o.kind), Path: o.path}
			if o.value != nil {
				po.Value = o.value
			}
			tp.Ops = append(tp.Ops, po)
		}
		if c.cond != nil {
			tp.Condition = &hydrapb.PatchCondition{Path: c.cond.path, Operator: hydrapb.PatchCondition_Op(c.cond.op), Threshold: c.cond.thr}
		}
		x := &res{}
		resp, err := rg.gw.PatchTreasures(bg, &hydrapb.PatchTreasuresRequest{IslandID: 1, SwampName: swamp, Patches: []*hydrapb.TreasurePatch{tp}})
		if err != nil {
			x.rpcErr = err.Error()
		} else if resp == nil || len(resp.Results) != 1 {
			x.rpcErr = fmt.Sprintf("response %v", resp)
		} else {
			x.status, x.errTxt = resp.Results[0].Status, resp.Results[0].GetError()
		}
		g, _ := rg.gw.Get(bg, &hydrapb.GetRequest{Swamps: []*hydrapb.GetSwamp{{IslandID: 1, SwampName: swamp, Keys: []string{"k"}}}})
		if g != nil && len(g.Swamps) == 1 && len(g.Swamps[0].Treasures) == 1 && g.Swamps[0].Treasures[0].IsExist {
			x.found = true
			x.body = g.Swamps[0].Treasures[0].BytesVal
		}
		out[i] = x
		rg.destroy(swamp)
	})
	for i, c := range cases {
		if x, isBad := bad[i]; isBad {
			r.Fail("patch", "server-request-hangs-or-panics", fmt.Sprintf("%v: PatchTreasures did not return (deadlock=%v panics=%v)", c, x.Deadlock, x.Panics), map[string]any{"case": c.String()})
			continue
		}
		x := out[i]
		if x == nil {
			continue
		}
		r.Eval(1)
		r.Nontrivial("gw:" + c.String())
		v := c13judge(c)
		var ops []msgpackpatch.Op
		for _, o := range c.ops {
			ops = append(ops, msgpackpatch.Op{Kind: msgpackpatch.OpKind(o.kind), Path: o.path, Value: o.value})
		}
		var cond *msgpackpatch.Condition
		if c.cond != nil {
			cond = &msgpackpatch.Condition{Path: c.cond.path, Op: msgpackpatch.CondOp(c.cond.op), Threshold: c.cond.thr}
		}
		lib, lerr := msgpackpatch.ApplyWithCondition(append([]byte(nil), c.doc.blob...), ops, cond)
		cls := c13class(lerr)
		tag := c13tag(c)
		cs := map[string]any{"case": c.String(), "status": x.status.String(), "status_error": x.errTxt, "rpc_error": x.rpcErr, "stored_body": fmt.Sprintf("%x", x.body), "library_result": cls}
		r.Outcome(fmt.Sprintf("gw/%s/lib=%s/status=%s", tag, cls, x.status))
		_ = v
		stored := []byte(nil)
		if len(x.body) >= 2 {
			stored = x.body[2:]
		}
		switch {
		case x.rpcErr != "":
			r.Fail("patch", "server:rpc-error:"+tag, fmt.Sprintf("%v: PatchTreasures failed as a whole: %s", c, x.rpcErr), cs)
		case !x.found || len(x.body) < 2 || x.body[0] != 0xC7 || x.body[1] != 0x00:
			r.Fail("patch", "server:record-lost-or-unwrapped:"+tag, fmt.Sprintf("%v: after the patch the record reads %x (found=%v)", c, x.body, x.found), cs)
		case lerr == nil:
			if x.status != hydrapb.PatchResult_PATCHED {
				r.Fail("patch", "server:status-differs:"+tag+":"+x.status.String(), fmt.Sprintf("%v: the patch applies, the server answers %s (%s)", c, x.status, x.errTxt), cs)
			} else if !bytes.Equal(stored, lib) {
				r.Fail("patch", "server:stored-body-differs:"+tag, fmt.Sprintf("%v: stored body %x, patch result %x", c, stored, lib), cs)
			}
		default:
			if !bytes.Equal(stored, c.doc.blob) {
				r.Fail("patch", "server:body-changed-by-failed-patch:"+tag+":"+cls, fmt.Sprintf("%v: the patch fails (%v, status %s) but the stored body changed from %x to %x", c, lerr, x.status, c.doc.blob, stored), cs)
			} else if x.status == hydrapb.PatchResult_PATCHED || x.status == hydrapb.PatchResult_CREATED {
				r.Fail("patch", "server:success-status-for-failed-patch:"+tag+":"+cls, fmt.Sprintf("%v: the patch fails (%v) but the server answers %s", c, lerr, x.status), cs)
			} else if want, ok := c13statusOf[cls]; ok && want != x.status {
				r.Fail("patch", "server:status-differs:"+tag+":"+cls+":"+x.status.String(), fmt.Sprintf("%v: the patch fails with %v; documented status %s, answered %s", c, lerr, want, x.status), cs)
			}
		}
	}
}
