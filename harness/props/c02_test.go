package props

import (
	"fmt"
	"testing"

	"github.com/hydraide/hydraide/app/core/hydra/swamp/chronicler"
	"github.com/hydraide/hydraide/app/core/hydra/swamp/treasure"
	"github.com/hydraide/hydraide/app/vshim/vos"
	"verifharness/kit"
)

// C02 — a crash at any point never loses durable data or the swamp.
func TestC02(t *testing.T) {
	quietLogs()
	r := kit.Start("C02", "fault_enumeration")
	defer r.Finish()
	maxLen, nsym := 4, 7
	if !r.Quick() {
		maxLen, nsym = 5, 8
	}
	r.Rule = fmt.Sprintf("write histories = all sequences of length 1..%d over the first %d of {Wa1,Wa2,Wb1,Sync,Close,Delete-a,batch{a3,b3},20KiB record (inline flush)} on the real V2 chronicler over the in-memory vos; for each history EVERY crash image: every prefix of the file-operation log and, for the in-flight write, every byte offset (torn write); each image is loaded by a fresh chronicler into a fresh beacon and must equal the reference state after p entries with (entries covered by the last completed fsync) <= p <= (entries handed over); then one more batch is written, synced, closed and reloaded on the same image; non-trivial = image that cuts inside a write (torn) or between a block and its header rewrite (distinct by history+op+offset)", maxLen, nsym)
	r.Assumptions = []string{"crash model: a prefix of the operation log survives, the in-flight write may be torn at any byte offset, metadata operations are atomic; loss of a non-prefix subset of unsynced writes (device reordering) is outside the property's quantifier", "durability is credited from the position of the fsync record in the log, not from the start of the Sync() call"}
	alphabet := storAlphabet[:nsym]

	r.Parallel(16, "TestC02", func() {
		forEachSeq(len(alphabet), maxLen, func(idx int, seq []int) bool {
			if !r.Mine(idx) {
				return true
			}
			if idx%16 == 0 && r.OutOfTime() {
				r.NotExhaustive("time budget reached; histories are explored shortest-first so all shorter lengths were completed")
				return false
			}
			steps := make([]storStep, len(seq))
			names := make([]string, len(seq))
			for i, s := range seq {
				steps[i] = alphabet[s]
				names[i] = alphabet[s].name
			}
			c02history(r, steps, names)
			return true
		})
	})
}

func c02history(r *kit.Run, steps []storStep, names []string) {
	run := runStorHistory(steps)
	log := run.log
	// lo[j] = entries covered by the last fsync record strictly before op j
	cur := baseState()
	lo := 0
	for j := 0; j <= len(log); j++ {
		hi := 0
		if j < len(log) {
			hi = run.hiAt[j]
		} else if len(log) > 0 {
			hi = run.hiAt[len(log)-1]
		}
		nb := 1
		if j < len(log) && log[j].Kind == vos.OpWrite {
			nb = len(log[j].Data) // b = 0..len-1; b == len is the next image
		}
		for b := 0; b < nb; b++ {
			img := cur
			if b > 0 {
				img = cur.Clone()
				img.Apply(log[j], b)
			} else {
				img = cur.Clone()
			}
			vos.SetFS(img)
			got := loadSwamp()
			r.Eval(1)
			g := fmtState(got)
			okp := -1
			for p := hi; p >= lo; p-- {
				if run.states[p] == g {
					okp = p
					break
				}
			}
			torn := b > 0
			if torn || (j < len(log) && j > 0 && log[j].Kind == vos.OpWrite && log[j].Off == 0 && log[j-1].Kind == vos.OpWrite) {
				r.Nontrivial(fmt.Sprintf("%v/%d/%d", names, j, b))
			}
			desc := map[string]any{"history": names, "crash_before_op": j, "torn_bytes": b, "loaded": g, "allowed_prefix_states": run.states[lo : hi+1]}
			if j < len(log) {
				desc["op"] = fmt.Sprintf("%s off=%d len=%d", log[j].Kind, log[j].Off, len(log[j].Data))
			}
			if okp < 0 {
				r.Outcome("mismatch")
				r.Fail("crash-image", c02class(log, j, b, got, run, lo), fmt.Sprintf("history %v crashed before op %d (+%d torn bytes): loaded {%s}, allowed %v", names, j, b, g, run.states[lo:hi+1]), desc)
				continue
			}
			r.Outcome(fmt.Sprintf("p-lo=%d", okp-lo))
			// recovery continues on the same image
			c := chronicler.NewV2WithName(swampPath, 1, "s/r/w")
			c.CreateDirectoryIfNotExists()
			c.Write([]treasure.Treasure{mkTreasure("c", "9", false, false)})
			c.Close()
			after := loadSwamp()
			want := map[string]string{"c": "9"}
			for k, v := range run.models[okp] {
				want[k] = v
			}
			if fmtState(after) != fmtState(want) {
				desc["after_recovery"] = fmtState(after)
				r.Fail("recovery", c02class(log, j, b, got, run, lo)+":write-after-recovery-lost", fmt.Sprintf("history %v crashed before op %d (+%d): recovered {%s}; after writing c=9, closing and reloading got {%s}, want {%s}", names, j, b, g, fmtState(after), fmtState(want)), desc)
			}
			if len(names) == 3 && names[0] == "Wa1" && names[1] == "S" && names[2] == "Wb1" && torn && b == 3 {
				r.Sample(desc)
			}
		}
		if j < len(log) {
			cur.Apply(log[j], -1)
			if log[j].Kind == vos.OpSync {
				lo = run.hiAt[j]
			}
		}
	}
}

// c02class names the failure class from observable facts.
func c02class(log []vos.Op, j, b int, got map[string]string, run *storRun, lo int) string {
	kind := "end"
	if j < len(log) {
		kind = log[j].Kind.String()
		if log[j].Kind == vos.OpWrite {
			switch {
			case log[j].Off == 0 && len(log[j].Data) == 64:
				kind = "header-rewrite"
			case len(log[j].Data) == 16:
				kind = "block-header-write"
			default:
				kind = "block-payload-write"
			}
		}
	}
	t := "clean-cut"
	if b > 0 {
		t = "torn"
	}
	res := "wrong-state"
	if len(got) == 0 && lo > 0 {
		res = "durable-data-loads-empty"
	}
	return fmt.Sprintf("%s:%s:%s", kind, t, res)
}
