package props

import (
	"fmt"
	"sort"
	"strings"
	"testing"

	"github.com/hydraide/hydraide/app/vshim/vrt"
	hydrapb "github.com/hydraide/hydraide/sdk/go/hydraidego/v3/hydraidepbgo"
	"github.com/vmihailenco/msgpack/v5"
	"verifharness/kit"
)

// C11 / C12 — claims hand out disjoint, matching, oldest-first records; cap-bearing operations never overshoot.
// Two client threads, one request each, against the full in-process server under the controlled scheduler; every
// schedule up to the preemption bound. The reference needs no hand-written model: the same two requests are executed
// SEQUENTIALLY on the real server in both orders, and the concurrent execution must produce one of those two
// outcomes (both responses and the final state of the swamp, including its expiry index). On top of that the
// property's own invariants are evaluated directly: no record handed to two claimers, a deleted record never
// returned or brought back, the number of records matching the cap filter never above the cap.

const c11epoch = 1767225600

type c11op struct {
	name string
	run  func(rg *rigT, sw string) string // returns the rendered response
}

var c11fx = &hydrapb.FilterGroup{Logic: hydrapb.FilterLogic_AND, Filters: []*hydrapb.TreasureFilter{
	{Operator: hydrapb.Relational_EQUAL, BytesFieldPath: p("s"), CompareValue: &hydrapb.TreasureFilter_StringVal{StringVal: "x"}}}}
var c11claimed = &hydrapb.FilterGroup{Logic: hydrapb.FilterLogic_AND, Filters: []*hydrapb.TreasureFilter{
	{Operator: hydrapb.Relational_EQUAL, BytesFieldPath: p("st"), CompareValue: &hydrapb.TreasureFilter_StringVal{StringVal: "claimed"}}}}

func c11keys(ts []*hydrapb.Treasure) string {
	var k []string
	for _, t := range ts {
		var m map[string]any
		b := ""
		if len(t.BytesVal) > 2 && msgpack.Unmarshal(t.BytesVal[2:], &m) == nil {
			e := "none"
			if t.ExpiredAt != nil {
				e = "future"
				if t.ExpiredAt.Seconds < c11epoch {
					e = "past"
				}
			}
			b = fmt.Sprintf("(s=%v,st=%v,exp=%s)", m["s"], m["st"], e)
		}
		k = append(k, t.Key+b)
	}
	return "[" + strings.Join(k, " ") + "]"
}

func c11ops() map[string]c11op {
	ops := map[string]c11op{}
	add := func(n string, f func(rg *rigT, sw string) string) { ops[n] = c11op{n, f} }
	errS := func(err error) string {
		return "error:" + strings.SplitN(err.Error(), "desc = ", 2)[len(strings.SplitN(err.Error(), "desc = ", 2))-1]
	}
	for _, n := range []int32{1, 2} {
		n := n
		add(fmt.Sprintf("ShiftExpired(%d)", n), func(rg *rigT, sw string) string {
			r, err := rg.gw.ShiftExpiredTreasures(bg, &hydrapb.ShiftExpiredTreasuresRequest{IslandID: 1, SwampName: sw, HowMany: n})
			if err != nil {
				return errS(err)
			}
			return c11keys(r.GetTreasures())
		})
		add(fmt.Sprintf("ShiftMatching(s=x,%d)", n), func(rg *rigT, sw string) string {
			r, err := rg.gw.ShiftMatchingTreasures(bg, &hydrapb.ShiftMatchingTreasuresRequest{IslandID: 1, SwampName: sw, IndexType: hydrapb.IndexType_CREATION_TIME, HowMany: n, Filters: c11fx})
			if err != nil {
				return errS(err)
			}
			return c11keys(r.GetTreasures())
		})
		patchExpired := func(name string, filters *hydrapb.FilterGroup, cap *hydrapb.Cap) {
			add(name, func(rg *rigT, sw string) string {
				r, err := rg.gw.PatchExpiredTreasures(bg, &hydrapb.PatchExpiredTreasuresRequest{IslandID: 1, SwampName: sw, HowMany: n,
					Ops:  []*hydrapb.PatchOp{{Op: hydrapb.PatchOp_SET, Path: "st", Value: mp("claimed")}},
					Meta: &hydrapb.PatchMeta{SetExpiredAt: ts(c11epoch + 5000)}, Filters: filters, Cap: cap})
				if err != nil {
					return errS(err)
				}
				var k []string
				for _, x := range r.GetPatched() {
					k = append(k, x.Key+":"+x.Status.String())
				}
				return fmt.Sprintf("[%s] capReached=%v", strings.Join(k, " "), r.GetCapReached())
			})
		}
		patchExpired(fmt.Sprintf("PatchExpired(%d)", n), nil, nil)
		patchExpired(fmt.Sprintf("PatchExpired(s=x,%d)", n), c11fx, nil)
		patchExpired(fmt.Sprintf("PatchExpired(%d,cap2)", n), nil, &hydrapb.Cap{Filter: c11claimed, MaxMatching: 2})
	}
	patch := func(name string, cap *hydrapb.Cap, path, val string, keys ...string) {
		add(name, func(rg *rigT, sw string) string {
			var ps []*hydrapb.TreasurePatch
			for _, k := range keys {
				ps = append(ps, &hydrapb.TreasurePatch{Key: k, Ops: []*hydrapb.PatchOp{{Op: hydrapb.PatchOp_SET, Path: path, Value: mp(val)}}})
			}
			r, err := rg.gw.PatchTreasures(bg, &hydrapb.PatchTreasuresRequest{IslandID: 1, SwampName: sw, Patches: ps, Cap: cap})
			if err != nil {
				return errS(err)
			}
			var k []string
			for _, x := range r.GetResults() {
				k = append(k, x.Key+":"+x.Status.String())
			}
			return fmt.Sprintf("[%s] capReached=%v", strings.Join(k, " "), r.GetCapReached())
		})
	}
	cap2 := &hydrapb.Cap{Filter: c11claimed, MaxMatching: 2}
	// creates a record from a seed body that ALREADY matches the cap filter; the op leaves it matching. A create moves
	// the swamp from "no such record" to "one more matching record" and must consume budget.
	createClaimed := func(name string, keys ...string) {
		add(name, func(rg *rigT, sw string) string {
			var ps []*hydrapb.TreasurePatch
			for _, k := range keys {
				ps = append(ps, &hydrapb.TreasurePatch{Key: k, Ops: []*hydrapb.PatchOp{{Op: hydrapb.PatchOp_SET, Path: "s", Value: mp("y")}}})
			}
			r, err := rg.gw.PatchTreasures(bg, &hydrapb.PatchTreasuresRequest{IslandID: 1, SwampName: sw, Patches: ps, Cap: cap2, CreateIfNotExist: true,
				InitialMsgpackOnCreate: mp(map[string]any{"s": "x", "st": "claimed"})})
			if err != nil {
				return errS(err)
			}
			var k []string
			for _, x := range r.GetResults() {
				k = append(k, x.Key+":"+x.Status.String())
			}
			return fmt.Sprintf("[%s] capReached=%v", strings.Join(k, " "), r.GetCapReached())
		})
	}
	createClaimed("CreateClaimed(n1,cap2)", "n1")
	createClaimed("CreateClaimed(n2,cap2)", "n2")
	createClaimed("CreateClaimed(n1&n2,cap2)", "n1", "n2")
	patch("Patch(r1:s=y)", nil, "s", "y", "r1")
	patch("Claim(r1,cap2)", cap2, "st", "claimed", "r1")
	patch("Claim(r2,cap2)", cap2, "st", "claimed", "r2")
	patch("Claim(r3,cap2)", cap2, "st", "claimed", "r3")
	patch("Claim(r1+r2,cap2)", cap2, "st", "claimed", "r1", "r2")
	add("Delete(r1)", func(rg *rigT, sw string) string {
		r, err := rg.gw.Delete(bg, &hydrapb.DeleteRequest{Swamps: []*hydrapb.DeleteRequest_SwampKeys{{IslandID: 1, SwampName: sw, Keys: []string{"r1"}}}})
		if err != nil {
			return errS(err)
		}
		var k []string
		for _, s := range r.GetResponses() {
			for _, ks := range s.GetKeyStatuses() {
				k = append(k, ks.Key+":"+ks.Status.String())
			}
		}
		return strings.Join(k, " ")
	})
	add("Renew(r1)", func(rg *rigT, sw string) string {
		c11set(rg, sw, "r1", "x", "free", 10, c11epoch+9000)
		return "ok"
	})
	return ops
}

func c11set(rg *rigT, sw, key, s, st string, created, expiry int64) {
	kv := &hydrapb.KeyValuePair{Key: key, BytesVal: append([]byte{0xC7, 0x00}, mp(map[string]any{"s": s, "st": st})...), CreatedAt: ts(c11epoch - 1000 + created)}
	if expiry != 0 {
		kv.ExpiredAt = ts(expiry)
	}
	rg.gw.Set(bg, &hydrapb.SetRequest{Swamps: []*hydrapb.SwampRequest{{IslandID: 1, SwampName: sw, CreateIfNotExist: true, Overwrite: true, KeyValues: []*hydrapb.KeyValuePair{kv}}}})
}

// c11warm builds the indexes the claim paths use (expiry, creation time, field index of s) before the clients start.
func c11warm(rg *rigT, sw string) {
	rg.gw.GetByIndex(bg, &hydrapb.GetByIndexRequest{IslandID: 1, SwampName: sw, IndexType: hydrapb.IndexType_EXPIRATION_TIME})
	rg.gw.GetByIndex(bg, &hydrapb.GetByIndexRequest{IslandID: 1, SwampName: sw, IndexType: hydrapb.IndexType_EXPIRATION_TIME, OrderType: hydrapb.OrderType_DESC})
	rg.gw.GetByIndex(bg, &hydrapb.GetByIndexRequest{IslandID: 1, SwampName: sw, IndexType: hydrapb.IndexType_CREATION_TIME})
	rg.gw.GetByIndexStream(&hydrapb.GetByIndexStreamRequest{IslandID: 1, SwampName: sw, IndexType: hydrapb.IndexType_CREATION_TIME, Filters: c11fx}, &fakeStream[hydrapb.GetByIndexStreamResponse]{})
}

func c11seed(rg *rigT, sw string) {
	c11set(rg, sw, "r1", "x", "free", 10, c11epoch-300)
	c11set(rg, sw, "r2", "x", "free", 20, c11epoch-200)
	c11set(rg, sw, "r3", "y", "free", 30, c11epoch-100)
	c11set(rg, sw, "r4", "x", "claimed", 40, c11epoch+7000)
	c11set(rg, sw, "z", "z", "keep", 50, 0)
}

// c11state renders the final state: every record (body fields, expiry class) and the expiry index listing.
func c11state(rg *rigT, sw string) (string, int) {
	g, err := rg.gw.GetAll(bg, &hydrapb.GetAllRequest{IslandID: 1, SwampName: sw})
	if err != nil || g == nil {
		return fmt.Sprintf("GetAll: %v", err), 0
	}
	var recs []string
	claimed := 0
	for _, t := range g.Treasures {
		var m map[string]any
		if len(t.BytesVal) > 2 {
			msgpack.Unmarshal(t.BytesVal[2:], &m)
		}
		e := "none"
		if t.ExpiredAt != nil {
			switch {
			case t.ExpiredAt.Seconds < c11epoch:
				e = "past"
			default:
				e = fmt.Sprintf("future+%d", t.ExpiredAt.Seconds-c11epoch)
			}
		}
		if m["st"] == "claimed" {
			claimed++
		}
		recs = append(recs, fmt.Sprintf("%s(s=%v,st=%v,exp=%s)", t.Key, m["s"], m["st"], e))
	}
	sort.Strings(recs)
	ix, err := rg.gw.GetByIndex(bg, &hydrapb.GetByIndexRequest{IslandID: 1, SwampName: sw, IndexType: hydrapb.IndexType_EXPIRATION_TIME})
	var ik []string
	if err == nil && ix != nil {
		// records with the same expiry may stand in either order: sort each run of equal expiry by key
		type ent struct {
			k string
			e int64
		}
		var es []ent
		for _, t := range ix.Treasures {
			e := int64(0)
			if t.ExpiredAt != nil {
				e = t.ExpiredAt.Seconds
			}
			es = append(es, ent{t.Key, e})
		}
		for i := 0; i < len(es); {
			j := i
			for j < len(es) && es[j].e == es[i].e {
				j++
			}
			sort.Slice(es[i:j], func(a, b int) bool { return es[i+a].k < es[i+b].k })
			i = j
		}
		for _, x := range es {
			// key and the expiry the index entry itself carries: an entry that points at a stale object shows another
			// expiry (or body) than the record of that key
			ik = append(ik, fmt.Sprintf("%s@%+d", x.k, x.e-c11epoch))
		}
	}
	return strings.Join(recs, " ") + " | expiry-index=" + strings.Join(ik, ","), claimed
}

var c11progs = map[string][][2]string{
	"C11": {
		{"ShiftExpired(1)", "ShiftExpired(1)"},
		{"ShiftExpired(2)", "ShiftExpired(2)"},
		{"ShiftExpired(2)", "Delete(r1)"},
		{"ShiftExpired(1)", "Renew(r1)"},
		{"ShiftMatching(s=x,1)", "ShiftMatching(s=x,1)"},
		{"ShiftMatching(s=x,2)", "Patch(r1:s=y)"},
		{"ShiftMatching(s=x,2)", "Delete(r1)"},
		{"PatchExpired(1)", "PatchExpired(1)"},
		{"PatchExpired(2)", "Delete(r1)"},
		{"PatchExpired(2)", "Renew(r1)"},
		{"PatchExpired(s=x,2)", "Patch(r1:s=y)"},
		{"ShiftExpired(1)", "PatchExpired(1)"},
		{"ShiftMatching(s=x,1)", "PatchExpired(1)"},
		// a record deleted and created again by the other client while a claim is under way
		{"PatchExpired(2)", "Delete(r1)+Renew(r1)"},
		// the same with the expiry / creation-time / field indexes not built yet (first use builds them concurrently)
		{"cold:ShiftExpired(2)", "ShiftExpired(2)"},
		{"cold:ShiftExpired(2)", "Delete(r1)"},
		{"cold:PatchExpired(2)", "Delete(r1)"},
		{"cold:ShiftExpired(1)", "Renew(r1)"},
	},
	"C12": {
		{"Claim(r1,cap2)", "Claim(r2,cap2)"},
		{"Claim(r1+r2,cap2)", "Claim(r3,cap2)"},
		{"PatchExpired(1,cap2)", "PatchExpired(1,cap2)"},
		{"PatchExpired(2,cap2)", "Claim(r3,cap2)"},
		{"PatchExpired(1,cap2)", "Claim(r1,cap2)"},
		{"CreateClaimed(n1,cap2)", "CreateClaimed(n2,cap2)"},
		{"CreateClaimed(n1&n2,cap2)", "Claim(r1,cap2)"},
	},
}

// c11runOps runs a '+'-joined list of operations one after the other and joins their answers.
func c11runOps(ops map[string]c11op, names string, rg *rigT, sw string) string {
	var out []string
	for _, n := range strings.Split(names, "+") {
		if n == "Claim(r1" || n == "r2,cap2)" { // "Claim(r1+r2,cap2)" is one operation whose name contains '+'
			continue
		}
		out = append(out, ops[n].run(rg, sw))
	}
	return strings.Join(out, " ; ")
}

func c11split(names string) []string {
	if _, single := c11ops()[names]; single {
		return []string{names}
	}
	return strings.Split(names, "+")
}

func c11NoPreempt(label string) bool {
	for _, s := range []string{"ShiftMatching", "ShiftExpired", "PatchExpired", "SelectExpiredForPatch", "ReindexExpiration", "PatchFields", "patchTreasuresOneSwamp", "capPreCount", "LockCapMu", "CountMatchingTreasures",
		"buildShiftMatchingPredicate", "buildPatchExpiredSelectionPredicate", "collectBucketCandidates", "LookupByBucket", "GetOrBuildBucket", "CloneAndDelete", "deleteHandler", "DeleteTreasure", "SaveFunction", "applyPatchExpiredOne",
		"beacon.(*beacon)", "guard.", "Gateway.Delete", "Gateway.Set", "Gateway.PatchTreasures", "shiftMatchingOneSwamp", "patchExpiredOneSwamp"} {
		if strings.Contains(label, s) {
			return false
		}
	}
	return true
}

func c11main(t *testing.T, prop string) {
	quietLogs()
	rigSetup()
	r := kit.Start(prop, "exploration")
	defer r.Finish()
	bound := 1
	if !r.Quick() {
		bound = 2
	}
	ops := c11ops()
	progs := c11progs[prop]
	var pn []string
	for _, pr := range progs {
		pn = append(pn, pr[0]+" || "+pr[1])
	}
	progs = append([][2]string(nil), progs...)
	r.Extra["program_list"] = pn
	r.Extra["programs"] = len(pn)
	r.Extra["preemption_bound"] = bound
	what := "claims"
	inv := "no record is handed to two claimers; a record deleted by the other request is never returned and never present afterwards (neither among the records nor in the expiry index)"
	if prop == "C12" {
		what = "cap-bearing operations (cap filter st=claimed, MaxMatching 2, one record claimed beforehand)"
		inv = "the number of records matching the cap filter is never above the cap afterwards"
	}
	r.Rule = fmt.Sprintf("%s: two client threads, one request each (two programs: the second client deletes a record and creates it again), on an in-memory swamp of the in-process server holding three expired records r1,r2 (s=x) and r3 (s=y), a claimed unexpired record r4 and a record z that no request touches; the expiry, creation-time and field indexes are built before the clients start, except in the programs marked cold:, where the first use builds them concurrently; %d programs %v; EVERY schedule with at most %d preemptions at the scheduling points of the claim / patch / delete / save paths, the beacons, the record guard and the cap mutex; the server is rebuilt for every execution. Oracle: an execution whose outcome (both responses and the final state: every record with its body fields and expiry class, and the listing of the expiry index) equals the outcome of running the same two requests sequentially on the real server in one of the two orders is accepted outright; any other outcome is judged by the clauses of the property: %s; every record returned by a matching-shift matches its filter and every record returned by an expired-shift was expired, as shown by the returned copy; a record answered DELETED is not also returned by a shift and is absent afterwards; shifted records are absent afterwards; the expiry index lists exactly the records that have an expiry, each once (a stale or duplicate entry is what a later claim would hand out). Non-trivial = executions with at least one preemption", what, len(progs), pn, bound, inv)
	r.Assumptions = []string{"sequentially consistent memory (scheduling points at synchronisation operations)", "two requests per program: linearizability reduces to 'equals one of the two sequential outcomes'", "the sequential behaviour itself is the reference (sequential defects are the subject of C06/C30)"}
	r.Parallel(16, "Test"+prop, func() {
		for pi, pr := range progs {
			pr := pr
			cold := strings.HasPrefix(pr[0], "cold:")
			pr[0] = strings.TrimPrefix(pr[0], "cold:")
			tag := ""
			if cold {
				tag = "cold-index:"
			}
			// reference outcomes: every interleaving of the two clients' request lists, run sequentially on the real server
			adm := map[string]bool{}
			var admL []string
			la, lb := c11split(pr[0]), c11split(pr[1])
			var orders [][]int // sequence of client ids
			var gen func(i, j int, cur []int)
			gen = func(i, j int, cur []int) {
				if i == len(la) && j == len(lb) {
					orders = append(orders, append([]int(nil), cur...))
					return
				}
				if i < len(la) {
					gen(i+1, j, append(cur, 0))
				}
				if j < len(lb) {
					gen(i, j+1, append(cur, 1))
				}
			}
			gen(0, 0, nil)
			for _, order := range orders {
				var parts [2][]string
				var st string
				x := seqRun(func() {
					rg := newRig(true)
					sw := "mem/c11/w"
					c11seed(rg, sw)
					if !cold {
						c11warm(rg, sw)
					}
					idx := [2]int{}
					for _, who := range order {
						l := la
						if who == 1 {
							l = lb
						}
						parts[who] = append(parts[who], ops[l[idx[who]]].run(rg, sw))
						idx[who]++
					}
					st, _ = c11state(rg, sw)
				})
				if x.Deadlock || len(x.Panics) > 0 {
					r.Fail("claims", "sequential-run-fails", fmt.Sprintf("program %v in order %v: deadlock=%v panics=%v", pr, order, x.Deadlock, x.Panics), nil)
				}
				o := fmt.Sprintf("%s -> %s ; %s -> %s ; %s", pr[0], strings.Join(parts[0], " ; "), pr[1], strings.Join(parts[1], " ; "), st)
				if !adm[o] {
					adm[o] = true
					admL = append(admL, o)
				}
			}
			var resp [2]string
			var st string
			var claimed int
			body := func() {
				rg := newRig(true)
				sw := "mem/c11/w"
				c11seed(rg, sw)
				if !cold {
					c11warm(rg, sw)
				}
				vrt.Drain()
				var ths []*vrt.Thread
				for ti := 0; ti < 2; ti++ {
					ti := ti
					ths = append(ths, vrt.Go(fmt.Sprintf("T%d", ti), func() {
						var parts []string
						for _, n := range c11split(pr[ti]) {
							parts = append(parts, ops[n].run(rg, sw))
						}
						resp[ti] = strings.Join(parts, " ; ")
					}))
				}
				for _, th := range ths {
					vrt.Join(th)
				}
				vrt.Quiesce()
				st, claimed = c11state(rg, sw)
			}
			e := &vrt.Explorer{Body: body, Stop: r.OutOfTime}
			e.Shard, e.ShardN = r.Shard()
			e.Cfg = vrt.Config{Bound: bound, Sites: true, NoPreempt: c11NoPreempt, StepCap: 300000, EnvIdle: true}
			e.Check = func(x *vrt.Exec) {
				r.Eval(1)
				cs := map[string]any{"program": pr, "schedule": x.Choices(), "preemptions": x.Cost, "sequential_outcomes": admL}
				compute := func(x *vrt.Exec) []vfail {
					var out []vfail
					cls := tag + pr[0] + "||" + pr[1] + ":" + lcPreemptedIn(x)
					if x.Deadlock || x.Horizon {
						return append(out, vfail{"claims", "requests-never-return:" + cls, fmt.Sprintf("program %v: blocked %v", pr, x.Blocked)})
					}
					for _, pn := range x.Panics {
						out = append(out, vfail{"claims", "panic:" + cls, pn})
					}
					o := fmt.Sprintf("%s -> %s ; %s -> %s ; %s", pr[0], resp[0], pr[1], resp[1], st)
					// An outcome that equals a sequential one is fine. Otherwise the property's own clauses decide (the
					// claim paths are not atomic by design: a record selected and then found deleted is reported as
					// KEY_NOT_FOUND, which no sequential order produces but which the property allows).
					if !adm[o] || (prop == "C12" && claimed > 2) { // the cap is an invariant: it also judges the sequential outcomes
						recv := func(i int) map[string]string { // key -> rendering of what the caller received
							m := map[string]string{}
							rs := resp[i]
							if j := strings.Index(rs, "]"); j > 0 && strings.HasPrefix(rs, "[") {
								for _, w := range strings.Fields(rs[1:j]) {
									switch {
									case strings.HasSuffix(w, ":PATCHED"):
										m[strings.TrimSuffix(w, ":PATCHED")] = "PATCHED"
									case strings.Contains(w, "("):
										m[w[:strings.Index(w, "(")]] = w
									}
								}
							}
							return m
						}
						isClaim := func(n string) bool { return strings.HasPrefix(n, "Shift") || strings.HasPrefix(n, "PatchExpired") }
						a, b := recv(0), recv(1)
						var why []string
						if isClaim(pr[0]) && isClaim(pr[1]) {
							for k, va := range a {
								vb, both := b[k]
								if !both {
									continue
								}
								// a matching-shift may take a record the other caller has just claimed in place, if it saw the claimed state
								if (va == "PATCHED" && strings.Contains(vb, "st=claimed")) || (vb == "PATCHED" && strings.Contains(va, "st=claimed")) {
									continue
								}
								why = append(why, "record-claimed-twice:"+k)
							}
						}
						for i := 0; i < 2; i++ {
							for k, v := range recv(i) {
								if strings.HasPrefix(pr[i], "ShiftMatching(s=x") && !strings.Contains(v, "s=x,") {
									why = append(why, "claimed-record-does-not-match-the-filter:"+k)
								}
								if strings.HasPrefix(pr[i], "ShiftExpired") && !strings.Contains(v, "exp=past") {
									why = append(why, "claimed-record-was-not-expired:"+k)
								}
							}
						}
						if pr[1] == "Delete(r1)" && strings.Contains(resp[1], "r1:DELETED") {
							if v, got := a["r1"]; got && v != "PATCHED" {
								why = append(why, "record-returned-to-a-claimer-and-reported-deleted:r1")
							}
							if strings.Contains(st, "r1(") || strings.Contains(","+st[strings.Index(st, "expiry-index=")+13:], ",r1@") {
								why = append(why, "deleted-record-present-afterwards:r1")
							}
						}
						if pr[1] == "Delete(r1)+Renew(r1)" {
							// whatever the claim did before, the record the other client created last is the live one
							if !strings.Contains(st, "r1(s=x,st=free,exp=future+9000)") {
								why = append(why, "re-created-record-overwritten-by-a-stale-claim:r1")
							}
						}
						// every shifted record is gone afterwards
						for i := 0; i < 2; i++ {
							if strings.HasPrefix(pr[i], "Shift") {
								for k := range recv(i) {
									if strings.Contains(st, k+"(") && !(strings.HasSuffix(pr[1-i], "Renew(r1)") && k == "r1") {
										why = append(why, "shifted-record-present-afterwards:"+k)
									}
								}
							}
						}
						// the expiry index lists exactly the records that have an expiry, each once
						{
							have := map[string]int{}
							for _, k := range strings.Split(st[strings.Index(st, "expiry-index=")+13:], ",") {
								if k != "" {
									ke := strings.SplitN(k, "@", 2)
									have[ke[0]]++
									if len(ke) == 2 && !strings.Contains(st, ke[0]+"(") {
										continue
									}
									// the entry's expiry must be the record's expiry
									if len(ke) == 2 {
										want := ""
										for _, rec := range strings.Fields(st[:strings.Index(st, " | ")]) {
											if strings.HasPrefix(rec, ke[0]+"(") {
												if i := strings.Index(rec, "exp=future"); i >= 0 {
													want = strings.TrimSuffix(rec[i+len("exp=future"):], ")")
												} else if strings.Contains(rec, "exp=past") {
													want = "past"
												}
											}
										}
										if want != "" && want != "past" && want != ke[1] {
											why = append(why, fmt.Sprintf("expiry-index-entry-is-stale:%s", ke[0]))
										}
									}
								}
							}
							for _, rec := range strings.Fields(st[:strings.Index(st, " | ")]) {
								k := rec[:strings.Index(rec, "(")]
								want := 1
								if strings.Contains(rec, "exp=none") {
									want = 0
								}
								if have[k] != want {
									why = append(why, fmt.Sprintf("expiry-index-lists-%s-%d-times", k, have[k]))
								}
								delete(have, k)
							}
							for k := range have {
								why = append(why, "expiry-index-lists-absent-record:"+k)
							}
						}
						if prop == "C12" && claimed > 2 {
							why = append(why, "cap-exceeded")
						}
						sort.Strings(why)
						seenW := map[string]bool{}
						for _, w := range why {
							kind := w
							if j := strings.Index(w, ":"); j >= 0 {
								kind = w[:j]
							}
							if seenW[kind] {
								continue
							}
							seenW[kind] = true
							out = append(out, vfail{"claims", kind + ":" + cls, fmt.Sprintf("program %v: %s: outcome {%s}; sequential outcomes %v", pr, w, o, admL)})
						}
						if len(why) == 0 {
							r.Count("outcomes_of_no_sequential_order_that_satisfy_every_clause_of_the_property", 1)
						}
					}
					r.Outcome(fmt.Sprintf("%d|%v", pi, adm[o]))
					return out
				}
				vrtReport(r, e.Cfg, body, x, compute, cs)
				if x.Cost > 0 {
					r.Nontrivial(fmt.Sprintf("%d/%v", pi, x.Choices()))
				}
			}
			if !r.Quick() {
				e.MaxExecs = lcThoroughExecsPerProgram // reproducible coverage of the thorough tier (see lc_test.go)
			}
			e.Run()
			r.Count("executions", int64(e.Stats.Execs))
			if e.Stats.Capped {
				r.NotExhaustive(fmt.Sprintf("program %v capped after %d executions", pr, e.Stats.Execs))
			}
			r.SetMax("max_points_per_execution", int64(e.Stats.MaxPoints))
		}
	})
}

func TestC11(t *testing.T) { c11main(t, "C11") }
func TestC12(t *testing.T) { c11main(t, "C12") }
