package props

import (
	"fmt"
	"strings"
	"testing"

	"github.com/hydraide/hydraide/app/vshim/vrt"
)

func TestDbg11(t *testing.T) {
	quietLogs()
	rigSetup()
	ops := c11ops()
	pr := [2]string{"PatchExpired(2)", "Delete(r1)"}
	var resp [2]string
	var st string
	body := func() {
		rg := newRig(true)
		sw := "mem/c11/w"
		c11seed(rg, sw)
		c11warm(rg, sw)
		vrt.Drain()
		var ths []*vrt.Thread
		for ti := 0; ti < 2; ti++ {
			ti := ti
			ths = append(ths, vrt.Go(fmt.Sprintf("T%d", ti), func() { resp[ti] = ops[pr[ti]].run(rg, sw) }))
		}
		for _, th := range ths {
			vrt.Join(th)
		}
		vrt.Quiesce()
		st, _ = c11state(rg, sw)
	}
	x := vrt.RunOnce(&vrt.Config{Bound: 1, Sites: true, NoPreempt: c11NoPreempt, StepCap: 300000, EnvIdle: true, TraceOn: true}, nil, body)
	fmt.Println(resp, st, x.Preempted)
	last := ""
	for _, l := range x.Trace {
		if !strings.HasPrefix(l, "t") {
			continue
		}
		th := l[:strings.Index(l, ":")]
		if th != last && (strings.HasPrefix(l, "t") ) {
			fmt.Println("...switch to", l)
			last = th
		}
	}
}
