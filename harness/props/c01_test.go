package props

import (
	"fmt"
	"strings"
	"testing"

	v2 "github.com/hydraide/hydraide/app/core/hydra/swamp/chronicler/v2"
	"github.com/hydraide/hydraide/app/vshim/vos"
	"verifharness/kit"
)

type c01sym struct {
	name string
	op   byte // 'w' write, 'd' delete, 'f' flush, 's' sync, 'r' reopen, 'B' burst
	key  string
	val  []byte
}

// C01 — the storage log replays to the last-writer-wins state.
func TestC01(t *testing.T) {
	r := kit.Start("C01", "exploration")
	defer r.Finish()
	maxLen := 4
	blockSizes := []int{32, 256, 16384}
	bigVal := func(bs int) []byte { return []byte(strings.Repeat("v", bs+1)) }
	k65535 := strings.Repeat("k", 65535)
	k65536 := strings.Repeat("k", 65536)
	k70000 := strings.Repeat("K", 70000)
	if !r.Quick() {
		maxLen = 5
	}
	r.Rule = fmt.Sprintf("all operation sequences of length 1..%d over {write(a,empty|5B|blocksize+1B), write(b,5B), write(bin key,5B), write(empty key), write(65535/65536/70000-byte key), delete(a|b), Flush, Sync, Close+reopen} for block sizes %v (+ every sequence of length <= 3 over {write(a,5B), write(a,1 MiB+1), delete(a), Flush, Reopen, write(b,5B)} at block size 16384; thorough: 3 MiB value, 1 MiB block with a 70000-entry burst) on the real v2.FileWriter/FileReader over the in-memory vos; after every reopen and at the end LoadIndex must equal a reference map; non-trivial = a sequence containing at least one accepted write followed later by a reopen, delete or overwrite (distinct by block size + sequence)", maxLen, blockSizes)
	r.Assumptions = []string{"keys/values outside the alphabet are not enumerated", "the in-memory vos models os faithfully for create/write/seek/sync/close (cross-checked by hydraide's own v2 tests in bin/selftest)"}

	r.Parallel(16, "TestC01", func() {
		for _, bs := range blockSizes {
			syms := []c01sym{
				{"W(a,5)", 'w', "a", []byte("12345")},
				{"W(a,e)", 'w', "a", nil},
				{"W(a,big)", 'w', "a", bigVal(bs)},
				{"W(b,5)", 'w', "b", []byte("bbbbb")},
				{"D(a)", 'd', "a", nil},
				{"D(b)", 'd', "b", nil},
				{"Flush", 'f', "", nil},
				{"Sync", 's', "", nil},
				{"Reopen", 'r', "", nil},
				{"W(bin,5)", 'w', "\x00\xff", []byte("\x00\x01\x02\xff\xfe")},
				{"W(k65535,5)", 'w', k65535, []byte("LLLLL")},
				{"W(k65536,5)", 'w', k65536, []byte("MMMMM")},
				{"W(k70000,5)", 'w', k70000, []byte("NNNNN")},
				{"W(emptykey,5)", 'w', "", []byte("EEEEE")},
			}
			if !r.Quick() && bs == 16384 {
				syms = append(syms, c01sym{"W(a,3MiB)", 'w', "a", []byte(strings.Repeat("x", 3<<20))})
			}
			forEachSeq(len(syms), maxLen, func(idx int, seq []int) bool {
				if !r.Mine(idx) {
					return true
				}
				if idx%512 == 0 && r.OutOfTime() {
					r.NotExhaustive(fmt.Sprintf("time budget reached inside block size %d", bs))
					return false
				}
				c01run(r, bs, syms, seq)
				return true
			})
		}
		if r.Mine(3) {
			// a value above 1 MiB (far above the block size): a writer may treat such entries specially
			mib := []byte(strings.Repeat("y", 1<<20+1))
			syms := []c01sym{{"W(a,5)", 'w', "a", []byte("12345")}, {"W(a,1MiB+1)", 'w', "a", mib}, {"D(a)", 'd', "a", nil}, {"Flush", 'f', "", nil}, {"Reopen", 'r', "", nil}, {"W(b,5)", 'w', "b", []byte("bbbbb")}}
			forEachSeq(len(syms), 3, func(idx int, seq []int) bool {
				c01run(r, 16384, syms, seq)
				return true
			})
		}
		if !r.Quick() && r.Mine(7) {
			// 1 MiB blocks: more than 65535 entries fit into one block
			syms := []c01sym{{"Burst70000", 'B', "", nil}, {"W(a,5)", 'w', "a", []byte("12345")}, {"Reopen", 'r', "", nil}, {"D(a)", 'd', "a", nil}}
			forEachSeq(len(syms), 3, func(idx int, seq []int) bool {
				c01run(r, 1<<20, syms, seq)
				return true
			})
		}
	})
}

func c01run(r *kit.Run, bs int, syms []c01sym, seq []int) {
	vos.UseMem()
	vos.MkdirAll("/d", 0755)
	const path = "/d/s.hyd"
	ref := map[string][]byte{}
	names := make([]string, len(seq))
	for i, s := range seq {
		names[i] = syms[s].name
	}
	desc := map[string]any{"block_size": bs, "ops": names}
	r.Eval(1)
	fail := func(disc, what string) {
		r.Fail("seq", disc, what, desc)
	}
	w, err := v2.NewFileWriterWithName(path, bs, "s/a/b")
	if err != nil {
		fail("open-error", fmt.Sprintf("cannot create writer: %v", err))
		return
	}
	accepted, later := false, false
	check := func(at string) bool {
		rd, err := v2.NewFileReader(path)
		if err != nil {
			fail(classifyC01(names, "reader-open-error"), fmt.Sprintf("%s: NewFileReader: %v", at, err))
			return false
		}
		defer rd.Close()
		idx, _, err := rd.LoadIndex()
		if err != nil {
			fail(classifyC01(names, "load-error"), fmt.Sprintf("%s: LoadIndex error %v; expected %s", at, err, mapStr(ref)))
			return false
		}
		if !equalMaps(idx, ref) {
			fail(classifyC01(names, "state-mismatch"), fmt.Sprintf("%s: loaded {%s} expected {%s}", at, mapStr(idx), mapStr(ref)))
			return false
		}
		return true
	}
	for i, s := range seq {
		sy := syms[s]
		switch sy.op {
		case 'w', 'd':
			e := v2.Entry{Operation: v2.OpUpdate, Key: sy.key, Data: sy.val}
			if sy.op == 'd' {
				e = v2.Entry{Operation: v2.OpDelete, Key: sy.key}
			} else if _, ok := ref[sy.key]; !ok {
				e.Operation = v2.OpInsert
			}
			err := w.WriteEntry(e)
			encodable := len(sy.key) >= 1 && len(sy.key) <= 65535
			if err != nil {
				if encodable {
					fail("encodable-write-rejected", fmt.Sprintf("op %d %s rejected: %v", i, sy.name, err))
					return
				}
				continue // rejected, reference unchanged
			}
			if accepted {
				later = true
			}
			accepted = true
			if sy.op == 'd' {
				delete(ref, sy.key)
			} else {
				ref[sy.key] = sy.val
			}
		case 'B':
			for j := 0; j < 70000; j++ {
				k := fmt.Sprintf("%05d", j)
				if err := w.WriteEntry(v2.Entry{Operation: v2.OpInsert, Key: k, Data: []byte{1}}); err != nil {
					fail("encodable-write-rejected", fmt.Sprintf("burst entry %d rejected: %v", j, err))
					return
				}
				ref[k] = []byte{1}
			}
			accepted = true
		case 'f':
			if err := w.Flush(); err != nil {
				fail("flush-error", fmt.Sprintf("op %d Flush: %v", i, err))
				return
			}
		case 's':
			if err := w.Sync(); err != nil {
				fail("sync-error", fmt.Sprintf("op %d Sync: %v", i, err))
				return
			}
		case 'r':
			if accepted {
				later = true
			}
			if err := w.Close(); err != nil {
				fail("close-error", fmt.Sprintf("op %d Close: %v", i, err))
				return
			}
			if !check(fmt.Sprintf("after reopen at op %d", i)) {
				return
			}
			w, err = v2.NewFileWriter(path, bs)
			if err != nil {
				fail(classifyC01(names, "reopen-error"), fmt.Sprintf("op %d reopen: %v", i, err))
				return
			}
		}
	}
	if err := w.Close(); err != nil {
		fail("close-error", fmt.Sprintf("final Close: %v", err))
		return
	}
	if !check("at end") {
		return
	}
	if accepted && later {
		r.Nontrivial(fmt.Sprintf("%d/%v", bs, seq))
	}
	r.Outcome(mapStr(ref))
	if len(seq) == 4 && seq[0] == 0 && seq[1] == 8 && seq[2] == 4 {
		r.Sample(desc)
	}
}

// classifyC01 names the root-cause class from observable facts of the failing history.
func classifyC01(names []string, base string) string {
	has := func(s string) bool {
		for _, n := range names {
			if n == s {
				return true
			}
		}
		return false
	}
	switch {
	case has("W(k65536,5)") || has("W(k70000,5)"):
		return base + ":after-oversized-key-accepted"
	case has("W(emptykey,5)"):
		return base + ":after-empty-key-accepted"
	case has("Burst70000"):
		return base + ":after-more-than-65535-entries-in-one-block"
	}
	return base
}
