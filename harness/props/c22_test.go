package props

import (
	"fmt"
	"math"
	"reflect"
	"strings"
	"testing"
	"time"

	"github.com/hydraide/hydraide/sdk/go/hydraidego/v3"
	sdkname "github.com/hydraide/hydraide/sdk/go/hydraidego/v3/name"
	"verifharness/kit"
)

// C22 — SDK model save/read round-trips exactly.
// Model types are built at run time with reflect.StructOf, so tag names, omitempty flags and field types are
// enumerated rather than hand-picked. Every model is saved through the real Go SDK into the in-process server
// (wire-format client) and read back into a fresh value of the same type.

type c22val struct {
	name string
	typ  reflect.Type
	vals []any // first the zero value, then non-zero values
}

type c22inner struct {
	A int
	B string
}

func c22types() []c22val {
	sx := "x"
	t0 := time.Date(2026, 3, 4, 5, 6, 7, 0, time.UTC)
	return []c22val{
		{"string", reflect.TypeOf(""), []any{"", "x", "héllo wörld"}},
		{"int8", reflect.TypeOf(int8(0)), []any{int8(0), int8(-5), int8(math.MaxInt8)}},
		{"int16", reflect.TypeOf(int16(0)), []any{int16(0), int16(-300)}},
		{"int32", reflect.TypeOf(int32(0)), []any{int32(0), int32(70000)}},
		{"int64", reflect.TypeOf(int64(0)), []any{int64(0), int64(-(1 << 40)), int64(math.MaxInt64)}},
		{"int", reflect.TypeOf(int(0)), []any{int(0), int(7)}},
		{"uint8", reflect.TypeOf(uint8(0)), []any{uint8(0), uint8(255)}},
		{"uint16", reflect.TypeOf(uint16(0)), []any{uint16(0), uint16(65535)}},
		{"uint32", reflect.TypeOf(uint32(0)), []any{uint32(0), uint32(1 << 31)}},
		{"uint64", reflect.TypeOf(uint64(0)), []any{uint64(0), uint64(math.MaxUint64)}},
		{"float32", reflect.TypeOf(float32(0)), []any{float32(0), float32(1.5)}},
		{"float64", reflect.TypeOf(float64(0)), []any{float64(0), float64(-2.25)}},
		{"bool", reflect.TypeOf(false), []any{false, true}},
		{"bytes", reflect.TypeOf([]byte(nil)), []any{[]byte(nil), []byte{1, 2, 0}}},
		{"[]string", reflect.TypeOf([]string(nil)), []any{[]string(nil), []string{"a", ""}}},
		{"map[string]int", reflect.TypeOf(map[string]int(nil)), []any{map[string]int(nil), map[string]int{"a": 1, "b": 0}}},
		{"time", reflect.TypeOf(time.Time{}), []any{time.Time{}, t0}},
		{"*string", reflect.TypeOf((*string)(nil)), []any{(*string)(nil), &sx}},
		{"struct", reflect.TypeOf(c22inner{}), []any{c22inner{}, c22inner{A: 3, B: "b"}}},
	}
}

var c22names = []string{"name", "Count", "keywords", "monkey", "values", "valueHistory", "expireAtHint", "createdAtMs", "createdByUser", "updatedAtMs", "updatedByUser", "omitemptyFlag", "deletableThing", "Key", "Value", "VALUE", "ExpireAt", "CreatedBy", "updatedat"}

type c22field struct {
	tag string // hydraide tag ("" = no tag)
	typ reflect.Type
	val any
}

type c22case struct {
	api    string // catalog | profile
	shape  string
	conf   string // mem (GOB) | mpk (persistent, MessagePack)
	fields []c22field
	desc   string
	first  []any // when set: the model is saved with these field values first, then with fields' values (overwrite)
}

func (c c22case) build() (reflect.Type, reflect.Value) {
	var sf []reflect.StructField
	for i, f := range c.fields {
		tag := reflect.StructTag("")
		if f.tag != "" {
			tag = reflect.StructTag(`hydraide:"` + f.tag + `"`)
		}
		sf = append(sf, reflect.StructField{Name: fmt.Sprintf("F%d", i), Type: f.typ, Tag: tag})
	}
	t := reflect.StructOf(sf)
	v := reflect.New(t)
	for i, f := range c.fields {
		if f.val != nil {
			v.Elem().Field(i).Set(reflect.ValueOf(f.val))
		}
	}
	return t, v
}

// c22equal: deep equality with nil == empty for slices and maps, times compared as instants.
func c22equal(a, b reflect.Value) bool {
	if a.Type() == reflect.TypeOf(time.Time{}) {
		return a.Interface().(time.Time).Equal(b.Interface().(time.Time))
	}
	switch a.Kind() {
	case reflect.Slice, reflect.Map:
		if a.Len() == 0 && b.Len() == 0 {
			return true
		}
		return reflect.DeepEqual(a.Interface(), b.Interface())
	case reflect.Ptr:
		if a.IsNil() || b.IsNil() {
			return a.IsNil() == b.IsNil()
		}
		return c22equal(a.Elem(), b.Elem())
	}
	return reflect.DeepEqual(a.Interface(), b.Interface())
}

func c22show(v reflect.Value) string {
	if v.Kind() == reflect.Ptr && !v.IsNil() {
		return "&" + c22show(v.Elem())
	}
	return fmt.Sprintf("%#v", v.Interface())
}

func c22cases(quick bool) []c22case {
	var out []c22case
	types := c22types()
	keyF := c22field{"key", reflect.TypeOf(""), "k1"}
	strT, intT := reflect.TypeOf(""), reflect.TypeOf(int32(0))
	tm := time.Date(2030, 1, 2, 3, 4, 5, 0, time.UTC)
	meta := []c22field{{"createdBy", strT, "alice"}, {"createdAt", reflect.TypeOf(time.Time{}), tm.Add(-time.Hour)}, {"updatedBy", strT, "bob"}, {"updatedAt", reflect.TypeOf(time.Time{}), tm.Add(-time.Minute)}, {"expireAt", reflect.TypeOf(time.Time{}), tm}}
	for _, conf := range []string{"mem", "mpk"} {
		// single-value catalogs
		for _, ty := range types {
			for vi, v := range ty.vals {
				for _, om := range []string{"", ",omitempty"} {
					for _, withMeta := range []bool{false, true} {
						fs := []c22field{keyF, {"value" + om, ty.typ, v}}
						if withMeta {
							fs = append(fs, meta...)
						}
						out = append(out, c22case{"catalog", "single-value", conf, fs, fmt.Sprintf("value %s #%d%s meta=%v", ty.name, vi, om, withMeta), nil})
					}
				}
			}
		}
		// overwrite: the model saved twice with different values (no omitempty, which is documented to keep the old value)
		for _, ty := range types {
			for vi := range ty.vals {
				for vj, v2 := range ty.vals {
					if vi == vj || vi == 0 {
						continue // first save non-zero, second save zero or another non-zero value
					}
					out = append(out,
						c22case{"catalog", "single-value", conf, []c22field{keyF, {"value", ty.typ, v2}}, fmt.Sprintf("overwrite value %s #%d -> #%d", ty.name, vi, vj), []any{"k1", ty.vals[vi]}},
						c22case{"catalog", "map-body", conf, []c22field{keyF, {"name", ty.typ, v2}, {"Count", intT, int32(2)}}, fmt.Sprintf("overwrite body name:%s #%d -> #%d", ty.name, vi, vj), []any{"k1", ty.vals[vi], int32(1), nil}},
						c22case{"profile", "profile", conf, []c22field{{"name", ty.typ, v2}, {"Count", intT, int32(2)}}, fmt.Sprintf("overwrite profile %s #%d -> #%d", ty.name, vi, vj), []any{ty.vals[vi], int32(1), nil}})
				}
			}
		}
		// key-only
		out = append(out, c22case{"catalog", "key-only", conf, []c22field{keyF}, "key only", nil})
		out = append(out, c22case{"catalog", "key-only", conf, append([]c22field{keyF}, meta...), "key + metadata", nil})
		// map-body catalogs: one body field with every tag name x type x value
		for _, n := range c22names {
			for _, ty := range types {
				for vi, v := range ty.vals {
					if quick && vi > 1 {
						continue
					}
					for _, om := range []string{"", ",omitempty"} {
						out = append(out, c22case{"catalog", "map-body", conf, []c22field{keyF, {n + om, ty.typ, v}}, fmt.Sprintf("body %s:%s #%d%s", n, ty.name, vi, om), nil})
					}
				}
			}
		}
		// map-body catalogs: two body fields (every ordered pair of tag names), string + int32, with metadata
		for _, n1 := range c22names {
			for _, n2 := range c22names {
				if n1 == n2 {
					continue
				}
				fs := []c22field{keyF, {n1, strT, "s1"}, {n2, intT, int32(42)}}
				out = append(out, c22case{"catalog", "map-body", conf, fs, fmt.Sprintf("body %s:string + %s:int32", n1, n2), nil})
				if !quick {
					out = append(out, c22case{"catalog", "map-body", conf, append(fs, meta...), fmt.Sprintf("body %s:string + %s:int32 + metadata", n1, n2), nil})
				}
			}
		}
		// profiles: two fields, tags from the name pool (the key of a profile field is the Go field name)
		for _, ty := range types {
			for vi, v := range ty.vals {
				for _, tg := range []string{"", "name", "name,omitempty", "keywords", "values,omitempty"} {
					out = append(out, c22case{"profile", "profile", conf, []c22field{{tg, ty.typ, v}, {"Count", intT, int32(7)}}, fmt.Sprintf("profile %s #%d tag=%q", ty.name, vi, tg), nil})
				}
			}
		}
	}
	return out
}

func TestC22(t *testing.T) {
	quietLogs()
	rigSetup()
	r := kit.Start("C22", "exploration")
	defer r.Finish()
	cases := c22cases(r.Quick())
	r.Rule = fmt.Sprintf("%d models built with reflect.StructOf and saved/read through the real Go SDK (CatalogSave+CatalogRead, ProfileSave+ProfileRead) against the in-process server (wire-format client), on an in-memory swamp with the default GOB encoding and on a persistent swamp registered with MessagePack encoding: single-value catalogs (19 field types x zero and non-zero values x omitempty x with/without the five metadata fields), key-only catalogs, map-body catalogs (one body field: %d tag names - plain ones and ones that contain a reserved word as a substring: keywords, monkey, values, valueHistory, expireAtHint, createdAtMs, createdByUser, updatedAtMs, updatedByUser, omitemptyFlag, deletableThing, and reserved words in another letter case: Key, Value, VALUE, ExpireAt, CreatedBy, updatedat - x 19 types x values x omitempty; two body fields: every ordered pair of tag names), profiles (19 types x values x 5 tag variants); overwrite cases (single-value, one body field, profile field, without omitempty: saved with a non-zero value, then with the zero value or another value). Oracle: the model read back into a fresh value of the same type equals the saved model field by field (nil == empty for slices and maps, times as instants); no error, no panic. Non-trivial = models with at least one non-zero non-key field", len(cases), len(c22names))
	r.Assumptions = []string{"fresh swamp per model; a second save of fields tagged omitempty is not enumerated (documented to keep the old value)", "struct types come from reflect.StructOf: exported fields F0..Fn, tags as enumerated"}
	r.Parallel(16, "TestC22", func() {
		type res struct {
			saveErr, readErr, pan string
			diffs                 []string
			nonzero               bool
		}
		out := make([]*res, len(cases))
		want := func(i int) bool { return r.Mine(i) && !r.OutOfTime() }
		bad := rigBatch(len(cases), want, func(rg *rigT, i int) {
			c := cases[i]
			o := &res{}
			out[i] = o
			func() {
				defer func() {
					if p := recover(); p != nil {
						o.pan = fmt.Sprint(p)
					}
				}()
				h := hydraidego.New(newSDKClient(rg))
				sw := sdkname.New().Sanctuary(c.conf).Realm("c22").Swamp(fmt.Sprintf("s%d", i))
				if c.conf == "mpk" {
					h.RegisterSwamp(bg, &hydraidego.RegisterSwampRequest{SwampPattern: sdkname.New().Sanctuary("mpk").Realm("*").Swamp("*"), CloseAfterIdle: time.Hour,
						FilesystemSettings: &hydraidego.SwampFilesystemSettings{WriteInterval: time.Second, EncodingFormat: hydraidego.EncodingMsgPack}})
				}
				typ, v := c.build()
				for fi := range c.fields {
					if c.fields[fi].tag != "key" && !v.Elem().Field(fi).IsZero() {
						o.nonzero = true
					}
				}
				back := reflect.New(typ)
				if c.first != nil {
					v0 := reflect.New(typ)
					for fi, fv := range c.first {
						if fv != nil {
							v0.Elem().Field(fi).Set(reflect.ValueOf(fv))
						}
					}
					var err error
					if c.api == "catalog" {
						_, err = h.CatalogSave(bg, sw, v0.Interface())
					} else {
						err = h.ProfileSave(bg, sw, v0.Interface())
					}
					if err != nil {
						o.saveErr = "first save: " + err.Error()
						return
					}
				}
				if c.api == "catalog" {
					if _, err := h.CatalogSave(bg, sw, v.Interface()); err != nil {
						o.saveErr = err.Error()
						return
					}
					if err := h.CatalogRead(bg, sw, "k1", back.Interface()); err != nil {
						o.readErr = err.Error()
						return
					}
				} else {
					if err := h.ProfileSave(bg, sw, v.Interface()); err != nil {
						o.saveErr = err.Error()
						return
					}
					if err := h.ProfileRead(bg, sw, back.Interface()); err != nil {
						o.readErr = err.Error()
						return
					}
				}
				for fi, f := range c.fields {
					a, b := v.Elem().Field(fi), back.Elem().Field(fi)
					if !c22equal(a, b) {
						o.diffs = append(o.diffs, fmt.Sprintf("field F%d `hydraide:%q` (%s): saved %s, read %s", fi, f.tag, f.typ, c22show(a), c22show(b)))
					}
				}
				rg.destroy(sw.Get())
			}()
		})
		for i, c := range cases {
			var tags []string
			for _, f := range c.fields {
				tags = append(tags, fmt.Sprintf("%s `%s`", f.typ, f.tag))
			}
			cs := map[string]any{"api": c.api, "shape": c.shape, "configuration": c.conf, "model": tags, "description": c.desc}
			if x, ok := bad[i]; ok {
				r.Eval(1)
				r.Fail("sdk", "call-never-returns", fmt.Sprintf("%s %s [%s]: deadlock=%v blocked=%v panics=%v", c.conf, c.shape, c.desc, x.Deadlock, x.Blocked, x.Panics), cs)
				continue
			}
			o := out[i]
			if o == nil {
				continue
			}
			r.Eval(1)
			if o.nonzero {
				r.Nontrivial(fmt.Sprint(i))
			}
			// the discriminator names the tag of the field that came back wrong (or made the call fail) and the kind of failure
			culprit := func() string {
				for _, f := range c.fields {
					h := strings.Split(f.tag, ",")[0]
					for _, w := range []string{"key", "value", "expireAt", "createdAt", "createdBy", "updatedAt", "updatedBy", "omitempty", "deletable"} {
						if h != w && strings.Contains(strings.ToLower(h), strings.ToLower(w)) {
							return "tag-" + h
						}
					}
				}
				return "plain-tags"
			}
			switch {
			case o.pan != "":
				r.Outcome("panic")
				r.Fail("sdk", fmt.Sprintf("%s:%s:panic:%s", c.api, c.shape, culprit()), fmt.Sprintf("%s %s model [%s] with fields %v: the SDK panicked: %s", c.conf, c.shape, c.desc, tags, o.pan), cs)
			case o.saveErr != "":
				r.Outcome("save-error")
				r.Fail("sdk", fmt.Sprintf("%s:%s:save-fails:%s", c.api, c.shape, culprit()), fmt.Sprintf("%s %s model [%s] with fields %v: save fails: %s", c.conf, c.shape, c.desc, tags, o.saveErr), cs)
			case o.readErr != "":
				r.Outcome("read-error")
				r.Fail("sdk", fmt.Sprintf("%s:%s:read-fails:%s", c.api, c.shape, culprit()), fmt.Sprintf("%s %s model [%s] with fields %v: read fails: %s", c.conf, c.shape, c.desc, tags, o.readErr), cs)
			case len(o.diffs) > 0:
				r.Outcome("differs")
				ft := ""
				for fi, f := range c.fields {
					if strings.Contains(o.diffs[0], fmt.Sprintf("field F%d ", fi)) {
						ft = f.typ.String() + ":" + strings.Split(f.tag, ",")[0]
						if strings.Contains(f.tag, ",omitempty") {
							ft += ",omitempty"
						}
					}
				}
				r.Fail("sdk", fmt.Sprintf("%s:%s:%s:read-differs:%s:%s", c.api, c.shape, c.conf, culprit(), ft), fmt.Sprintf("%s %s model [%s]: %s", c.conf, c.shape, c.desc, strings.Join(o.diffs, "; ")), cs)
			default:
				r.Outcome("equal")
			}
			if i == 100 {
				r.Sample(cs)
			}
		}
	})
}
