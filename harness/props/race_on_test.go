//go:build race

package props

const raceEnabled = true
