//go:build !race

package props

const raceEnabled = false
