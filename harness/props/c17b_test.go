package props

import "verifharness/kit"

// c17swamp: swamp-level part of C17 (filled in by the lifecycle rig).
func c17swamp(r *kit.Run) {}
