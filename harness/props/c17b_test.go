package props

import "verifharness/kit"

// c17swamp is part B of C17: swamp / hydra level waits (Destroy, automatic destroy, idle close, GracefulStop and the
// requests that wait for them) under the controlled scheduler; oracle: every thread finishes.
func c17swamp(r *kit.Run) {
	bound := 1
	if !r.Quick() {
		bound = 2
	}
	c17cExplore(r, "C17") // part C first: it is cheap and targets the summon protocol
	lcExplore(r, "C17", c17swampProgs(), bound)
}
