package props

import (
	"fmt"
	"sort"
	"strings"
	"syscall"
	"testing"

	"github.com/hydraide/hydraide/app/core/hydra/swamp/beacon"
	"github.com/hydraide/hydraide/app/core/hydra/swamp/chronicler"
	"github.com/hydraide/hydraide/app/core/hydra/swamp/treasure"
	"github.com/hydraide/hydraide/app/vshim/vos"
	"verifharness/kit"
)

// C25 — disk write failures never corrupt durable data.
// Write histories on the real V2 chronicler over the fault-injecting in-memory file system. For every history the
// fault-free run gives the operation log; then EVERY single fault is injected (each mutating file operation fails
// with EIO / ENOSPC, each write is additionally cut short at 0, 1, half and len-1 bytes), after which the device is
// healthy again: the history continues, two more batches are written and synced, the swamp is closed and reloaded.

type c25fault struct {
	at    int   // sequence number of the mutating file operation that fails
	short int   // -1: the operation fails outright; >=0: a write performs only this many bytes
	errno error // error returned
}

func (f c25fault) String() string {
	if f.short >= 0 {
		return fmt.Sprintf("op#%d short-write(%d bytes)", f.at, f.short)
	}
	return fmt.Sprintf("op#%d fails(%v)", f.at, f.errno)
}

type c25run struct {
	log       []vos.Op
	syncOK    []bool // per step: the step's Sync/Close/Compact returned nil (true for W steps)
	stepOfOp  []int  // log index -> step index that issued it
	faultStep int    // step during which the fault fired (-1: did not fire)
	entries   [][][3]string
	final     map[string]string
	recovered bool
	faultOp   string
	faultAt   int
}

var c25steps = append(append([]storStep(nil), storAlphabet[:7]...), storStep{"Compact", 'K', nil})

// c25w120: one batch of 120 entries over 60 keys (every key written twice): enough entries and fragmentation for the
// self-heal compaction that Load runs on a fragmented file.
func c25w120() storStep {
	var b [][3]string
	for round := 0; round < 2; round++ {
		for i := 0; i < 60; i++ {
			b = append(b, [3]string{fmt.Sprintf("k%02d", i), fmt.Sprint(round), ""})
		}
	}
	return storStep{"W120", 'W', b}
}

// c25loadHistories: histories for the load-time compaction path (CompactFromIndex): the burst, optional barriers, then
// Load by a fresh chronicler ('L'), optionally followed by further steps.
func c25loadHistories() [][]storStep {
	w, l := c25w120(), storStep{"Load", 'L', nil}
	s, c, a := storAlphabet[3], storAlphabet[4], storAlphabet[0]
	return [][]storStep{{w, l}, {w, s, l}, {w, c, l}, {w, c, l, a}, {w, l, a, s}, {w, c, l, l}}
}

// c25exec runs the history with at most one injected fault and then the two recovery rounds.
func c25exec(steps []storStep, f *c25fault) *c25run {
	vos.UseMem()
	c := chronicler.NewV2WithName(swampPath, 1, "s/r/w")
	c.CreateDirectoryIfNotExists()
	vos.ClearLog()
	run := &c25run{faultStep: -1}
	cur := 0
	if f != nil {
		fired := false
		vos.Fault = func(seq int, op *vos.Op) (error, int) {
			if fired || seq != f.at {
				return nil, -1
			}
			fired = true
			run.faultStep = cur
			run.faultAt = seq
			run.faultOp = fmt.Sprintf("%s %s off=%d len=%d", op.Kind, op.Path, op.Off, len(op.Data))
			if f.short >= 0 {
				if op.Kind != vos.OpWrite || f.short >= len(op.Data) {
					return f.errno, -1
				}
				return f.errno, f.short
			}
			return f.errno, -1
		}
	}
	seen := map[string]bool{}
	for si, s := range steps {
		cur = si
		ok := true
		var ents [][3]string
		switch s.op {
		case 'W':
			var ts []treasure.Treasure
			for _, kv := range s.batch {
				ts = append(ts, mkTreasure(kv[0], kv[1], seen[kv[0]], kv[2] == "d"))
				seen[kv[0]] = kv[2] != "d"
				ents = append(ents, kv)
			}
			c.Write(ts)
		case 'S':
			if cs, okc := c.(interface{ Sync() error }); okc {
				ok = cs.Sync() == nil
			}
		case 'C':
			ok = c.Close() == nil
		case 'K':
			if fc, okc := c.(interface{ ForceCompaction() error }); okc {
				ok = fc.ForceCompaction() == nil
			}
		case 'L':
			// the swamp is closed (its result is the step's barrier result) and opened again by a fresh chronicler,
			// whose Load compacts a fragmented file in place
			ok = c.Close() == nil
			c = chronicler.NewV2WithName(swampPath, 1, "s/r/w")
			c.Load(beacon.New())
		}
		run.syncOK = append(run.syncOK, ok)
		run.entries = append(run.entries, ents)
		for len(run.stepOfOp) < vos.LogLen() {
			run.stepOfOp = append(run.stepOfOp, si)
		}
	}
	run.log = append([]vos.Op(nil), vos.Log()...)
	vos.Fault = nil // the device is healthy from here on
	c.Write([]treasure.Treasure{mkTreasure("c", "9", false, false)})
	r1 := true
	if cs, okc := c.(interface{ Sync() error }); okc {
		r1 = cs.Sync() == nil
	}
	c.Write([]treasure.Treasure{mkTreasure("d", "9", false, false)})
	r2 := true
	if cs, okc := c.(interface{ Sync() error }); okc {
		r2 = cs.Sync() == nil
	}
	r3 := c.Close() == nil
	run.recovered = r1 && r2 && r3
	run.final = loadSwamp()
	return run
}

// c25allowed enumerates the admissible final states: entries of steps that were made durable before the fault
// (a Sync/Close that returned nil) and entries of steps after the faulted step are applied; every entry of the
// uncertain window (after the last successful barrier before the fault, up to and including the faulted step) may be
// present or lost.
func c25allowed(steps []storStep, run *c25run) []string {
	lastBarrier := -1
	for si := 0; si < len(steps) && (run.faultStep < 0 || si < run.faultStep); si++ {
		if (steps[si].op == 'S' || steps[si].op == 'C' || steps[si].op == 'L') && run.syncOK[si] {
			lastBarrier = si
		}
	}
	// a completed fsync of the swamp file that precedes the faulted operation inside the faulted step is a barrier
	// too (Close and compaction flush and fsync the writer before they do anything else)
	if run.faultStep >= 0 {
		for i := 0; i < run.faultAt && i < len(run.log); i++ {
			if run.log[i].Kind == vos.OpSync && run.log[i].Path == hydPath && run.stepOfOp[i] > lastBarrier {
				lastBarrier = run.stepOfOp[i]
			}
		}
	}
	type ent struct {
		kv        [3]string
		uncertain bool
	}
	var all []ent
	for si := range steps {
		for _, kv := range run.entries[si] {
			all = append(all, ent{kv, run.faultStep >= 0 && si > lastBarrier && si <= run.faultStep})
		}
	}
	var unc []int
	for i, e := range all {
		if e.uncertain {
			unc = append(unc, i)
		}
	}
	seen := map[string]bool{}
	var out []string
	for mask := 0; mask < 1<<len(unc); mask++ {
		drop := map[int]bool{}
		for b, i := range unc {
			if mask&(1<<b) != 0 {
				drop[i] = true
			}
		}
		m := map[string]string{"c": "9", "d": "9"}
		for i, e := range all {
			if drop[i] {
				continue
			}
			if e.kv[2] == "d" {
				delete(m, e.kv[0])
			} else {
				m[e.kv[0]] = e.kv[1]
			}
		}
		s := fmtState(m)
		if !seen[s] {
			seen[s] = true
			out = append(out, s)
		}
	}
	return out
}

// c25admits decides admissibility key by key (the entries of the uncertain window may be lost individually, so the
// keys are independent): for each key the set of possible final values is built by walking its entries in order - a
// certain entry replaces the set by its own value, an uncertain one adds its value to the set.
func c25admits(steps []storStep, run *c25run, final map[string]string) (bool, string) {
	lastBarrier := -1
	for si := 0; si < len(steps) && (run.faultStep < 0 || si < run.faultStep); si++ {
		if (steps[si].op == 'S' || steps[si].op == 'C' || steps[si].op == 'L') && run.syncOK[si] {
			lastBarrier = si
		}
	}
	if run.faultStep >= 0 {
		for i := 0; i < run.faultAt && i < len(run.log); i++ {
			if run.log[i].Kind == vos.OpSync && run.log[i].Path == hydPath && run.stepOfOp[i] > lastBarrier {
				lastBarrier = run.stepOfOp[i]
			}
		}
	}
	const absent = "\x00absent"
	poss := map[string]map[string]bool{}
	set := func(k string, certain bool, v string) {
		if poss[k] == nil {
			poss[k] = map[string]bool{absent: true}
		}
		if certain {
			poss[k] = map[string]bool{v: true}
		} else {
			poss[k][v] = true
		}
	}
	for si := range steps {
		uncertain := run.faultStep >= 0 && si > lastBarrier && si <= run.faultStep
		for _, kv := range run.entries[si] {
			v := kv[1]
			if kv[2] == "d" {
				v = absent
			}
			set(kv[0], !uncertain, v)
		}
	}
	set("c", true, "9")
	set("d", true, "9")
	for k, p := range poss {
		got, ok := final[k]
		if !ok {
			got = absent
		}
		if !p[got] {
			var al []string
			for v := range p {
				if v == absent {
					v = "<absent>"
				}
				al = append(al, v)
			}
			sort.Strings(al)
			if got == absent {
				got = "<absent>"
			}
			return false, fmt.Sprintf("key %s loads %s, admissible %v", k, got, al)
		}
	}
	for k := range final {
		if poss[k] == nil {
			return false, fmt.Sprintf("key %s loads although it was never written", k)
		}
	}
	return true, ""
}

func TestC25(t *testing.T) {
	quietLogs()
	r := kit.Start("C25", "fault_enumeration")
	defer r.Finish()
	maxLen := 3
	if !r.Quick() {
		maxLen = 4
	}
	var names []string
	for _, s := range c25steps {
		names = append(names, s.name)
	}
	r.Rule = fmt.Sprintf("write histories = all sequences of length 1..%d over %v, plus six histories that write a burst of 120 entries over 60 keys and then have a fresh chronicler Load the file (the load-time self-heal compaction, CompactFromIndex), on the real V2 chronicler (Compact = ForceCompaction) over the in-memory file system; the fault-free run gives the file-operation log; then EVERY single fault: each mutating file operation (create, write, truncate, fsync, rename, remove) fails with EIO, and each write is also performed short (0, 1, len/2, len-1 bytes, with ENOSPC); afterwards the device is healthy, the history continues, two more batches (c=9, d=9) are written and synced, the swamp is closed and loaded by a fresh chronicler. Oracle: the loaded state equals the reference state in which everything covered by a Sync/Close that returned nil before the fault, everything written after the faulted step and the two recovery batches are present, while each entry of the window hit by the fault may be present or lost; the recovery Syncs and the Close succeed. Non-trivial = injected faults that actually fired", maxLen, names)
	r.Assumptions = []string{"one fault per run; the device is healthy afterwards", "entries of the batch(es) between the last successful barrier before the fault and the end of the faulted step may individually be lost (the engine logs and skips failed block writes)"}
	r.Parallel(16, "TestC25", func() {
		forEachSeq(len(c25steps), maxLen, func(idx int, seq []int) bool {
			if !r.Mine(idx) {
				return true
			}
			if r.OutOfTime() {
				r.NotExhaustive("time budget reached; histories are explored shortest-first")
				return false
			}
			steps := make([]storStep, len(seq))
			hn := make([]string, len(seq))
			for i, s := range seq {
				steps[i], hn[i] = c25steps[s], c25steps[s].name
			}
			return c25one(r, idx, seq, steps, hn)
		})
		for li, steps := range c25loadHistories() {
			if !r.Mine(li) {
				continue
			}
			var hn []string
			for _, st := range steps {
				hn = append(hn, st.name)
			}
			c25one(r, 1000000+li, []int{1000000 + li}, steps, hn)
		}
	})
}

// c25one runs one history fault-free and then with every single fault.
func c25one(r *kit.Run, idx int, seq []int, steps []storStep, hn []string) bool {
	base := c25exec(steps, nil)
	r.Eval(1)
	if ok, why := c25admits(steps, base, base.final); !ok {
		r.Fail("faults", "fault-free-run-differs-from-model", fmt.Sprintf("history %v without any fault: %s", hn, why), map[string]any{"history": hn})
		return true
	}
	for k, op := range base.log {
		var faults []c25fault
		faults = append(faults, c25fault{k, -1, syscall.EIO})
		if op.Kind == vos.OpWrite && len(op.Data) > 0 {
			for _, b := range []int{0, 1, len(op.Data) / 2, len(op.Data) - 1} {
				if b >= 0 && b < len(op.Data) {
					faults = append(faults, c25fault{k, b, syscall.ENOSPC})
				}
			}
		}
		for _, f := range faults {
			f := f
			run := c25exec(steps, &f)
			r.Eval(1)
			if run.faultStep < 0 {
				r.Count("faults_that_did_not_fire", 1)
				continue
			}
			r.Nontrivial(fmt.Sprintf("%v/%v", seq, f))
			got := fmtState(run.final)
			if len(got) > 300 {
				got = got[:300] + "..."
			}
			admitted, why := c25admits(steps, run, run.final)
			var allowed []string
			if n := len(run.entries); n > 0 {
				cnt := 0
				for _, e := range run.entries {
					cnt += len(e)
				}
				if cnt <= 12 {
					allowed = c25allowed(steps, run)
					if inList(allowed, fmtState(run.final)) != admitted {
						panic(fmt.Sprintf("C25 machinery: the per-key oracle (%v, %s) and the mask enumeration %v disagree on %v for history %v", admitted, why, allowed, fmtState(run.final), hn))
					}
				} else {
					allowed = []string{"(per key) " + why}
				}
			}
			kind := strings.Fields(run.faultOp)[0]
			if strings.HasSuffix(strings.Fields(run.faultOp)[1], ".compact") {
				kind += "-of-compaction-temp"
			}
			how := "fails"
			if f.short >= 0 {
				how = "short"
			}
			during := steps[run.faultStep].name
			if steps[run.faultStep].op == 'W' {
				during = "Write"
			}
			cs := map[string]any{"history": hn, "fault": f.String(), "faulted_operation": run.faultOp, "during_step": run.faultStep, "loaded": got, "allowed": allowed}
			r.Outcome(fmt.Sprintf("%s/%s/%v", kind, how, admitted))
			if !admitted {
				res := "wrong-state"
				if len(run.final) == 0 {
					res = "loads-empty"
				} else if _, ok := run.final["d"]; !ok {
					res = "post-fault-writes-lost"
				}
				r.Fail("faults", fmt.Sprintf("%s-%s-during-%s:%s", kind, how, during, res), fmt.Sprintf("history %v, %s (%s) during step %d: after recovery the swamp loads {%s}; admissible %v", hn, f, run.faultOp, run.faultStep, got, allowed), cs)
			} else if !run.recovered {
				r.Fail("faults", fmt.Sprintf("%s-%s-during-%s:sync-or-close-fails-after-the-fault-cleared", kind, how, during), fmt.Sprintf("history %v, %s: a Sync or the Close after the fault cleared returned an error", hn, f), cs)
			}
			if idx == 30 && k == 2 {
				r.Sample(cs)
			}
		}
	}
	return true
}
