package props

import (
	"context"
	"fmt"
	"reflect"
	"sort"
	"strings"
	"testing"

	"github.com/hydraide/hydraide/app/server/gateway"
	"github.com/hydraide/hydraide/app/vshim/vrt"
	hydrapb "github.com/hydraide/hydraide/sdk/go/hydraidego/v3/hydraidepbgo"
	"google.golang.org/protobuf/proto"
	"google.golang.org/protobuf/reflect/protoreflect"
	"verifharness/kit"
)

// C26 — malformed requests fail cleanly without side effects.
// For every unary RPC of the Gateway (and the three server-streaming read RPCs) two baseline requests are built from
// the protobuf descriptors (a "full" one with every field set to a plausible value and a "minimal" one with only the
// addressing fields), and then EVERY single-field deviation from a menu of boundary / malformed values is applied at
// every field path (deviation bound 1; thorough: also every pair of deviations on the addressing fields). Each request
// is sent to the real handler of the in-process server against a persistent swamp holding two flushed records.

type c26step struct {
	fd  protoreflect.FieldDescriptor
	idx int // list index, -1 = not a list element
}

type c26mut struct {
	path  string
	class string
	apply func(root protoreflect.Message)
}

func c26nav(root protoreflect.Message, steps []c26step) protoreflect.Message {
	m := root
	for _, s := range steps {
		if s.idx >= 0 {
			m = m.Mutable(s.fd).List().Get(s.idx).Message()
		} else {
			m = m.Mutable(s.fd).Message()
		}
	}
	return m
}

var c26long = strings.Repeat("k", 70000)

// c26fill sets every field of m to a plausible value (full=true) or only the addressing fields (full=false).
func c26fill(m protoreflect.Message, swamp string, full bool, depth int) {
	fds := m.Descriptor().Fields()
	for i := 0; i < fds.Len(); i++ {
		fd := fds.Get(i)
		name := string(fd.Name())
		addressing := name == "SwampName" || name == "IslandID" || name == "Key" || name == "Keys" || name == "Swamps" || name == "KeyValues" || name == "Requests" || name == "Patches" || name == "SwampNames"
		if !full && !addressing {
			continue
		}
		if fd.ContainingOneof() != nil && !fd.HasOptionalKeyword() && m.WhichOneof(fd.ContainingOneof()) != nil {
			continue
		}
		scalar := func() (protoreflect.Value, bool) {
			switch fd.Kind() {
			case protoreflect.StringKind:
				switch {
				case name == "SwampName" || name == "SwampNames":
					return protoreflect.ValueOfString(swamp), true
				case name == "SwampPattern":
					return protoreflect.ValueOfString("dsk/c26/*"), true
				case name == "Key" || name == "Keys":
					return protoreflect.ValueOfString("a"), true
				case strings.Contains(name, "Path"):
					return protoreflect.ValueOfString("n"), true
				}
				return protoreflect.ValueOfString("u"), true
			case protoreflect.BytesKind:
				return protoreflect.ValueOfBytes([]byte{0x81, 0xa1, 'n', 0x01}), true
			case protoreflect.BoolKind:
				return protoreflect.ValueOfBool(name == "CreateIfNotExist" || name == "Overwrite"), true
			case protoreflect.EnumKind:
				return protoreflect.ValueOfEnum(fd.Enum().Values().Get(0).Number()), true
			case protoreflect.Int32Kind, protoreflect.Sint32Kind, protoreflect.Sfixed32Kind:
				return protoreflect.ValueOfInt32(1), true
			case protoreflect.Int64Kind, protoreflect.Sint64Kind, protoreflect.Sfixed64Kind:
				if name == "Seconds" {
					return protoreflect.ValueOfInt64(1767225700), true
				}
				return protoreflect.ValueOfInt64(1), true
			case protoreflect.Uint32Kind, protoreflect.Fixed32Kind:
				return protoreflect.ValueOfUint32(1), true
			case protoreflect.Uint64Kind, protoreflect.Fixed64Kind:
				return protoreflect.ValueOfUint64(1), true
			case protoreflect.FloatKind:
				return protoreflect.ValueOfFloat32(1), true
			case protoreflect.DoubleKind:
				return protoreflect.ValueOfFloat64(1), true
			}
			return protoreflect.Value{}, false
		}
		switch {
		case fd.IsMap():
			continue
		case fd.IsList():
			l := m.Mutable(fd).List()
			if fd.Kind() == protoreflect.MessageKind {
				if depth <= 0 {
					continue
				}
				e := l.NewElement()
				c26fill(e.Message(), swamp, full, depth-1)
				l.Append(e)
			} else if v, ok := scalar(); ok {
				l.Append(v)
			}
		case fd.Kind() == protoreflect.MessageKind:
			if depth <= 0 {
				continue
			}
			c26fill(m.Mutable(fd).Message(), swamp, full, depth-1)
		default:
			if v, ok := scalar(); ok {
				m.Set(fd, v)
			}
		}
	}
}

// c26muts enumerates every single-field deviation of msg (recursively).
func c26muts(msg protoreflect.Message, steps []c26step, prefix string, depth int, out *[]c26mut) {
	fds := msg.Descriptor().Fields()
	for i := 0; i < fds.Len(); i++ {
		fd := fds.Get(i)
		name := string(fd.Name())
		path := prefix + name
		st := append([]c26step(nil), steps...)
		add := func(class string, f func(parent protoreflect.Message)) {
			*out = append(*out, c26mut{path, class, func(root protoreflect.Message) { f(c26nav(root, st)) }})
		}
		setv := func(class string, v protoreflect.Value) {
			add(class, func(p protoreflect.Message) { p.Set(fd, v) })
		}
		add("cleared", func(p protoreflect.Message) { p.Clear(fd) })
		switch {
		case fd.IsMap():
		case fd.IsList():
			switch fd.Kind() {
			case protoreflect.StringKind:
				for _, alt := range [][]string{{""}, {"a", "a"}, {c26long}, {"a", "", "zz"}} {
					alt := alt
					add(fmt.Sprintf("strings[%d×%d]", len(alt), len(alt[0])), func(p protoreflect.Message) {
						p.Clear(fd)
						l := p.Mutable(fd).List()
						for _, s := range alt {
							l.Append(protoreflect.ValueOfString(s))
						}
					})
				}
			case protoreflect.MessageKind:
				add("list-of-one-empty-message", func(p protoreflect.Message) {
					p.Clear(fd)
					l := p.Mutable(fd).List()
					l.Append(l.NewElement())
				})
				add("element-duplicated", func(p protoreflect.Message) {
					l := p.Mutable(fd).List()
					if l.Len() > 0 {
						l.Append(protoreflect.ValueOfMessage(proto.Clone(l.Get(0).Message().Interface()).ProtoReflect()))
					}
				})
				if depth > 0 && msg.Has(fd) && msg.Get(fd).List().Len() > 0 {
					c26muts(msg.Get(fd).List().Get(0).Message(), append(st, c26step{fd, 0}), path+"[0].", depth-1, out)
					// a well-formed first element followed by a copy of it that carries one deviation: what a handler did
					// for the first element before it met the bad one must not stay behind when the request is refused
					var inner []c26mut
					c26muts(msg.Get(fd).List().Get(0).Message(), append(st, c26step{fd, 1}), path+"[1].", depth-1, &inner)
					for _, im := range inner {
						im := im
						fdc := fd
						*out = append(*out, c26mut{im.path, "after-a-good-element:" + im.class, func(root protoreflect.Message) {
							l := c26nav(root, st).Mutable(fdc).List()
							if l.Len() == 1 {
								l.Append(protoreflect.ValueOfMessage(proto.Clone(l.Get(0).Message().Interface()).ProtoReflect()))
							}
							im.apply(root)
						}})
					}
				}
			}
		case fd.Kind() == protoreflect.MessageKind:
			add("empty-message", func(p protoreflect.Message) { p.Clear(fd); p.Mutable(fd) })
			if depth > 0 && msg.Has(fd) {
				c26muts(msg.Get(fd).Message(), append(st, c26step{fd, -1}), path+".", depth-1, out)
			}
		case fd.Kind() == protoreflect.StringKind:
			vals := []string{"", "a", "a/b", "a//c", "/", "//", "a/b/c/d", "dsk/c26/absent", c26long}
			if name != "SwampName" && name != "SwampPattern" {
				vals = []string{"", c26long, "[*]", "a..b"}
			}
			for _, s := range vals {
				cl := fmt.Sprintf("%q", s)
				if len(s) > 20 {
					cl = fmt.Sprintf("string×%d", len(s))
				}
				setv(cl, protoreflect.ValueOfString(s))
			}
		case fd.Kind() == protoreflect.BytesKind:
			setv("bytes:empty", protoreflect.ValueOfBytes([]byte{}))
			setv("bytes:c1", protoreflect.ValueOfBytes([]byte{0xc1}))
			setv("bytes:truncated", protoreflect.ValueOfBytes([]byte{0xd9, 0x05, 'a'}))
		case fd.Kind() == protoreflect.EnumKind:
			setv("enum:99", protoreflect.ValueOfEnum(99))
			setv("enum:-1", protoreflect.ValueOfEnum(-1))
			vs := fd.Enum().Values()
			setv("enum:last", protoreflect.ValueOfEnum(vs.Get(vs.Len()-1).Number()))
		case fd.Kind() == protoreflect.BoolKind:
			setv("bool:true", protoreflect.ValueOfBool(true))
		case fd.Kind() == protoreflect.Int32Kind:
			setv("int:-1", protoreflect.ValueOfInt32(-1))
			setv("int:max", protoreflect.ValueOfInt32(1<<31-1))
			setv("int:0", protoreflect.ValueOfInt32(0))
		case fd.Kind() == protoreflect.Int64Kind:
			setv("int:-1", protoreflect.ValueOfInt64(-1))
			setv("int:max", protoreflect.ValueOfInt64(1<<63-1))
			setv("int:0", protoreflect.ValueOfInt64(0))
		case fd.Kind() == protoreflect.Uint32Kind:
			setv("uint:max", protoreflect.ValueOfUint32(1<<32-1))
			setv("uint:0", protoreflect.ValueOfUint32(0))
		case fd.Kind() == protoreflect.Uint64Kind:
			setv("uint:max", protoreflect.ValueOfUint64(1<<64-1))
			setv("uint:0", protoreflect.ValueOfUint64(0))
		case fd.Kind() == protoreflect.FloatKind || fd.Kind() == protoreflect.DoubleKind:
		}
	}
}

type c26rpc struct {
	name string
	req  reflect.Type // *hydrapb.XRequest
	call func(gw gateway.Gateway, req proto.Message) (respNil bool, err error)
}

func c26rpcs() []c26rpc {
	var out []c26rpc
	gt := reflect.TypeOf(gateway.Gateway{})
	ctxT := reflect.TypeOf((*context.Context)(nil)).Elem()
	skip := map[string]bool{"Heartbeat": true, "Lock": true, "Unlock": true, "GetTelemetryHistory": true, "GetErrorDetails": true, "GetTelemetryStats": true}
	for i := 0; i < gt.NumMethod(); i++ {
		m := gt.Method(i)
		if skip[m.Name] || m.Type.NumIn() != 3 || m.Type.In(1) != ctxT || m.Type.NumOut() != 2 {
			continue
		}
		name := m.Name
		out = append(out, c26rpc{name, m.Type.In(2), func(gw gateway.Gateway, req proto.Message) (bool, error) {
			res := reflect.ValueOf(gw).MethodByName(name).Call([]reflect.Value{reflect.ValueOf(bg), reflect.ValueOf(req)})
			var err error
			if !res[1].IsNil() {
				err = res[1].Interface().(error)
			}
			return res[0].IsNil(), err
		}})
	}
	out = append(out,
		c26rpc{"GetByIndexStream", reflect.TypeOf(&hydrapb.GetByIndexStreamRequest{}), func(gw gateway.Gateway, req proto.Message) (bool, error) {
			return false, gw.GetByIndexStream(req.(*hydrapb.GetByIndexStreamRequest), &fakeStream[hydrapb.GetByIndexStreamResponse]{})
		}},
		c26rpc{"GetByIndexStreamFromMany", reflect.TypeOf(&hydrapb.GetByIndexStreamFromManyRequest{}), func(gw gateway.Gateway, req proto.Message) (bool, error) {
			return false, gw.GetByIndexStreamFromMany(req.(*hydrapb.GetByIndexStreamFromManyRequest), &fakeStream[hydrapb.GetByIndexStreamFromManyResponse]{})
		}},
		c26rpc{"GetStream", reflect.TypeOf(&hydrapb.GetStreamRequest{}), func(gw gateway.Gateway, req proto.Message) (bool, error) {
			return false, gw.GetStream(req.(*hydrapb.GetStreamRequest), &fakeStream[hydrapb.GetStreamResponse]{})
		}},
	)
	sort.Slice(out, func(i, j int) bool { return out[i].name < out[j].name })
	return out
}

type c26item struct {
	rpc   int
	base  string // full | minimal
	muts  []c26mut
	label string
}

func TestC26(t *testing.T) {
	quietLogs()
	rigSetup()
	r := kit.Start("C26", "exploration")
	defer r.Finish()
	rpcs := c26rpcs()
	var items []c26item
	var rn []string
	for ri, rp := range rpcs {
		rn = append(rn, rp.name)
		for _, base := range []string{"full", "minimal"} {
			proto0 := reflect.New(rp.req.Elem()).Interface().(proto.Message)
			c26fill(proto0.ProtoReflect(), "dsk/c26/x", base == "full", 3)
			var muts []c26mut
			c26muts(proto0.ProtoReflect(), nil, "", 3, &muts)
			items = append(items, c26item{ri, base, nil, "baseline"})
			for _, m := range muts {
				items = append(items, c26item{ri, base, []c26mut{m}, m.path + "=" + m.class})
			}
			if !r.Quick() {
				// pairs of deviations on the addressing fields
				var addr []c26mut
				for _, m := range muts {
					if strings.HasSuffix(m.path, "SwampName") || strings.HasSuffix(m.path, "Keys") || strings.HasSuffix(m.path, "Key") || strings.HasSuffix(m.path, "IslandID") {
						addr = append(addr, m)
					}
				}
				for a := range addr {
					for b := range addr {
						if addr[a].path < addr[b].path {
							items = append(items, c26item{ri, base, []c26mut{addr[a], addr[b]}, addr[a].path + "=" + addr[a].class + " & " + addr[b].path + "=" + addr[b].class})
						}
					}
				}
			}
		}
	}
	r.Extra["rpcs"] = rn
	r.Rule = fmt.Sprintf("%d RPCs (every unary handler of the Gateway except Heartbeat/Lock/Unlock/telemetry, plus GetByIndexStream, GetByIndexStreamFromMany, GetStream): two baseline requests built from the protobuf descriptors (full: every field, nested to depth 3, set to a plausible value; minimal: addressing fields only), then EVERY single-field deviation at every field path (field cleared; strings: empty, 1- and 2-part swamp names, empty parts, 4 parts, absent swamp, 70000-byte string, wildcard/double-dot paths; string lists: empty string, duplicates, oversized key; message fields: empty message; message lists: one empty element, duplicated element; enums: 99, -1, last; ints: -1/0/max; bytes: empty, invalid msgpack, truncated)%s — %d requests. Each request goes to the real handler of the in-process server against a persistent swamp dsk/c26/<n> holding two flushed records a=1, b=2. Oracle: the handler returns (no hang, no escaping panic) and never answers a request whose handling panicked as a success (the panic recovery of the gateway turns a panic into a nil response with a nil error, which the client receives as an empty success; recovered panics are observed through the gateway's own error log); the system lock is released; a request that is refused with an error leaves the records exactly as they were (also when a well-formed list element precedes the malformed one); afterwards the swamp's records read the same before and after it is closed and re-loaded from its file (so nothing unloadable was written), the close itself returns, and the server still answers a Get. Non-trivial = requests with at least one deviation", len(rpcs), map[bool]string{true: "", false: "; thorough also every pair of deviations on SwampName/IslandID/Key/Keys"}[r.Quick()], len(items))
	r.Assumptions = []string{"deviation bound 1 (2 on addressing fields in the thorough tier)", "single client; subscriptions, DestroyBulk (client streaming) and telemetry RPCs are not driven"}
	r.Parallel(16, "TestC26", func() {
		logs := &logCap{}
		logs.install()
		type res struct {
			recovered          string
			pre                string
			respNil            bool
			err                string
			locked             bool
			before, after      string
			closed, aliveAfter bool
			pan                string
		}
		out := make([]*res, len(items))
		want := func(i int) bool { return r.Mine(i) && !r.OutOfTime() }
		read := func(rg *rigT, sw string) string {
			g, err := rg.gw.GetAll(bg, &hydrapb.GetAllRequest{IslandID: 1, SwampName: sw})
			if err != nil {
				return "error:" + strings.SplitN(err.Error(), "desc =", 2)[len(strings.SplitN(err.Error(), "desc =", 2))-1]
			}
			if g == nil {
				return "nil-response"
			}
			return treasuresStr(g.Treasures, true)
		}
		isConfig := func(i int) bool {
			n := rpcs[items[i].rpc].name
			return n == "RegisterSwamp" || n == "DeRegisterSwamp"
		}
		var each func(rg *rigT, i int)
		// RegisterSwamp / DeRegisterSwamp change how every later swamp of the server is stored: each of their requests gets
		// a server of its own (and the record comparison is not applied to them: re-registering the pattern as in-memory
		// legitimately changes what survives a close)
		each = func(rg *rigT, i int) {
			it := items[i]
			rp := rpcs[it.rpc]
			sw := fmt.Sprintf("dsk/c26/s%d", i)
			rg.gw.Set(bg, &hydrapb.SetRequest{Swamps: []*hydrapb.SwampRequest{{IslandID: 1, SwampName: sw, CreateIfNotExist: true, Overwrite: true,
				KeyValues: []*hydrapb.KeyValuePair{{Key: "a", Int32Val: p(int32(1))}, {Key: "b", Int32Val: p(int32(2))}}}}})
			rg.flush(sw)
			pre := read(rg, sw)
			req := reflect.New(rp.req.Elem()).Interface().(proto.Message)
			c26fill(req.ProtoReflect(), sw, it.base == "full", 3)
			for _, m := range it.muts {
				m.apply(req.ProtoReflect())
			}
			o := &res{pre: pre}
			out[i] = o
			logs.reset()
			func() {
				defer func() {
					if p := recover(); p != nil {
						o.pan = fmt.Sprint(p)
					}
				}()
				rn, err := rp.call(rg.gw, req)
				o.respNil = rn
				if err != nil {
					o.err = err.Error()
				}
			}()
			for _, l := range logs.take() {
				if strings.Contains(l, "grpc gateway panic") {
					o.recovered = l
				}
			}
			o.locked = rg.z.GetSafeops().SystemLocked()
			o.before = read(rg, sw)
			o.closed = true
			rg.closeSwamp(sw)
			o.after = read(rg, sw)
			g, err := rg.gw.Get(bg, &hydrapb.GetRequest{Swamps: []*hydrapb.GetSwamp{{IslandID: 1, SwampName: sw, Keys: []string{"a"}}}})
			o.aliveAfter = err != nil || g != nil // an error answer is an answer
			rg.destroy(sw)
			// swamps a deviating name may have created
			for _, n := range rg.z.GetHydra().ListActiveSwamps() {
				if !strings.HasPrefix(n, "dsk/c26/s") {
					rg.destroy(n)
				}
			}
		}
		badCfg := map[int]*vrt.Exec{}
		for i := range items {
			if isConfig(i) && want(i) {
				i := i
				x := seqRun(func() { each(newRig(true), i) })
				if x.Deadlock || x.Horizon || len(x.Panics) > 0 {
					badCfg[i] = x
				}
			}
		}
		bad := rigBatch(len(items), func(i int) bool { return want(i) && !isConfig(i) }, each)
		for i, x := range badCfg {
			bad[i] = x
		}
		for i, it := range items {
			rp := rpcs[it.rpc]
			cls := "baseline"
			if len(it.muts) > 0 {
				var cl []string
				for _, m := range it.muts {
					// the field name without list positions, and the deviation class
					f := m.path
					if j := strings.LastIndex(f, "."); j >= 0 {
						f = f[j+1:]
					}
					cl = append(cl, f+"="+m.class)
				}
				cls = strings.Join(cl, "&")
			}
			cs := map[string]any{"rpc": rp.name, "baseline": it.base, "deviation": it.label}
			if x, ok := bad[i]; ok {
				r.Eval(1)
				d := "request-or-close-never-returns"
				if len(x.Panics) > 0 {
					d = "panic-escapes-the-handler"
				}
				r.Fail("requests", fmt.Sprintf("%s:%s:%s", d, rp.name, cls), fmt.Sprintf("%s (%s baseline) with %s: deadlock=%v blocked=%v panics=%v", rp.name, it.base, it.label, x.Deadlock, x.Blocked, x.Panics), cs)
				continue
			}
			o := out[i]
			if o == nil {
				continue
			}
			r.Eval(1)
			if len(it.muts) > 0 {
				r.Nontrivial(fmt.Sprint(i))
			}
			cs["error"], cs["records_before_close"], cs["records_after_reload"] = o.err, o.before, o.after
			oc := "response"
			if o.err != "" {
				oc = "error"
			}
			switch {
			case o.pan != "":
				oc = "panic"
				r.Fail("requests", fmt.Sprintf("panic-escapes-the-handler:%s:%s", rp.name, cls), fmt.Sprintf("%s (%s baseline) with %s: panic %s", rp.name, it.base, it.label, o.pan), cs)
			case o.recovered != "" && o.err == "":
				oc = "panic-answered-as-success"
				w := o.recovered
				if j := strings.Index(w, "error="); j >= 0 {
					w = w[j+6:]
				}
				if len(w) > 90 {
					w = w[:90]
				}
				r.Fail("requests", fmt.Sprintf("panic-answered-as-success:%s:%s", rp.name, cls), fmt.Sprintf("%s (%s baseline) with %s: the handler panicked (%s), the panic was recovered and the request answered with a nil error (the client sees an empty success)", rp.name, it.base, it.label, w), cs)
			case o.recovered != "":
				oc = "panic-answered-as-error"
			}
			if o.locked {
				r.Fail("requests", fmt.Sprintf("system-lock-not-released:%s:%s", rp.name, cls), fmt.Sprintf("%s with %s: safeops still reports the system as locked after the request", rp.name, it.label), cs)
			}
			if o.before != o.after && !isConfig(i) {
				// what kind of difference: a record that exists in memory only (by kind of key), or a record whose fields differ
				kind := "fields-of-a-record-differ"
				bm := map[string]string{}
				for _, t := range strings.Split(o.before, " | ") {
					bm[strings.SplitN(t, ":", 2)[0]] = t
				}
				for _, t := range strings.Split(o.after, " | ") {
					delete(bm, strings.SplitN(t, ":", 2)[0])
				}
				for k := range bm {
					switch {
					case k == "":
						kind = "record-with-empty-key-in-memory-only"
					case len(k) > 65535:
						kind = "record-with-oversized-key-in-memory-only"
					default:
						kind = "record-in-memory-only"
					}
				}
				if strings.HasPrefix(o.after, "error:") || o.after == "" {
					kind = "swamp-unreadable-or-empty-after-reload"
				}
				cls = kind
				r.Fail("requests", fmt.Sprintf("records-differ-after-reload:%s:%s", rp.name, cls), fmt.Sprintf("%s (%s baseline) with %s: before the close the swamp reads {%s}, after close and reload {%s}", rp.name, it.base, it.label, o.before, o.after), cs)
			}
			if o.err != "" && o.before != o.pre && !isConfig(i) {
				r.Fail("requests", fmt.Sprintf("refused-request-changed-the-records:%s:%s", rp.name, cls), fmt.Sprintf("%s (%s baseline) with %s: the request was refused (%s) but the swamp's records changed from {%s} to {%s}", rp.name, it.base, it.label, o.err, o.pre, o.before), cs)
			}
			if !o.aliveAfter {
				r.Fail("requests", fmt.Sprintf("server-does-not-answer-afterwards:%s:%s", rp.name, cls), fmt.Sprintf("%s with %s: a Get after the request fails", rp.name, it.label), cs)
			}
			r.Outcome(rp.name + "/" + oc)
			if i == 1000 {
				r.Sample(cs)
			}
		}
	})
}
