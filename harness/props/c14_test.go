package props

import (
	"context"
	"fmt"
	"os"
	"sort"
	"strings"
	"testing"
	"time"

	"github.com/hydraide/hydraide/app/core/hydra/lock"
	"github.com/hydraide/hydraide/app/vshim/vrt"
	"verifharness/kit"
)

// C14 — business lock: exclusive, FIFO, TTL-released, deadlock-free (and C28: no per-key state left behind).
// The real lock.New() runs under the controlled scheduler. Callers are short programs; TTL timers and context
// cancellations are environment events that may fire at any scheduling decision.
//
// program letters (one caller each):  <key><action>
//   U  Lock, then Unlock(own id)
//   T  Lock, then nothing (the TTL has to release it)
//   S  Lock, Unlock(own), Unlock(own) again (stale id)            -> second must fail, nobody else released
//   B  Lock, Unlock(never-issued id), Unlock(own)                 -> first must fail, holder unchanged
//   F  Lock, Unlock(this key, id currently granted on the OTHER key), Unlock(own) -> first must fail
//   C  Lock with a context that the environment may cancel at any time; Unlock(own) if granted

type c14caller struct {
	key     string
	act     byte
	granted bool
	id      string
	unlock  bool // Unlock(own) has been called (begun)
	done    bool
	gotErr  bool
	inCall  bool // inside a Lock/Unlock call
}

type c14mon struct {
	l        lock.Lock
	cs       []*c14caller
	ord      map[string]int // lock id -> arrival ordinal (first time seen in a queue)
	arrivals map[string][]string
	prev     map[string][]string
	viol     []kit.Failure
	logs     *logCap
	maxQ     int
	book     string // first bookkeeping violation seen (C28)
}

var c14m *c14mon

func (m *c14mon) fail(disc, what string) {
	if len(m.viol) < 1 {
		m.viol = append(m.viol, kit.Failure{Signature: disc, What: what})
	}
}

func inList(l []string, s string) bool {
	for _, x := range l {
		if x == s {
			return true
		}
	}
	return false
}

// observe runs at every scheduling decision: arrival order and the mutual-exclusion invariant.
func (m *c14mon) observe() {
	if m == nil || m.l == nil {
		return
	}
	qs := lock.VerifQueues(m.l)
	if len(qs) > m.maxQ {
		m.maxQ = len(qs)
	}
	for k, ids := range qs {
		for _, id := range ids {
			if _, ok := m.ord[id]; !ok {
				m.ord[id] = len(m.ord)
				m.arrivals[k] = append(m.arrivals[k], id)
			}
		}
	}
	m.prev = qs
	holders := map[string][]int{}
	for i, c := range m.cs {
		if c.granted && !c.unlock && inList(qs[c.key], c.id) {
			holders[c.key] = append(holders[c.key], i)
		}
	}
	// C28: at a quiescent point (no caller inside a lock API call except those parked in Lock's select, every
	// watchdog parked in its select) the map holds no queue object without callers.
	if m.book == "" {
		quiescent := true
		vrt.PendingKinds(func(name string, kind int, daemon bool) {
			if name == "main" {
				return
			}
			if strings.HasPrefix(name, "caller") {
				var i int
				fmt.Sscanf(name, "caller%d", &i)
				if m.cs[i].inCall && kind != vrt.KSelect {
					quiescent = false
				}
			} else if kind != vrt.KSelect {
				quiescent = false
			}
		})
		if quiescent {
			for k, ids := range qs {
				if len(ids) == 0 {
					m.book = fmt.Sprintf("the queue object of key %q is retained although nobody holds or waits for it, while no lock operation is in progress (queues %s)", k, m.queueStr())
				}
			}
		}
	}
	for k, h := range holders {
		if len(h) > 1 {
			m.fail("two-holders", fmt.Sprintf("callers %v all hold key %q (granted, not unlocked, TTL not fired); queue %v", h, k, m.ordinals(qs[k])))
		}
	}
}

func (m *c14mon) ordinals(ids []string) []int {
	o := make([]int, len(ids))
	for i, id := range ids {
		o[i] = m.ord[id]
	}
	return o
}

// granted is called when Lock returned an id to caller i.
func (m *c14mon) grantedTo(i int, id string) {
	m.observe()
	c := m.cs[i]
	c.granted, c.id = true, id
	qs := lock.VerifQueues(m.l)
	q := qs[c.key]
	// FIFO: every id that arrived on this key before ours is either out of the queue or was granted before us.
	for _, y := range m.arrivals[c.key] {
		if y == id {
			break
		}
		if inList(q, y) {
			grantedEarlier := false
			for _, o := range m.cs {
				if o.granted && o.id == y {
					grantedEarlier = true
				}
			}
			if !grantedEarlier {
				m.fail("granted-out-of-arrival-order", fmt.Sprintf("caller %d was granted key %q while an earlier arrival (ordinal %d) is still waiting in the queue %v", i, c.key, m.ord[y], m.ordinals(q)))
			}
		}
	}
	m.observe()
}

func (m *c14mon) queueStr() string {
	qs := lock.VerifQueues(m.l)
	ks := make([]string, 0, len(qs))
	for k := range qs {
		ks = append(ks, k)
	}
	sort.Strings(ks)
	var b strings.Builder
	for _, k := range ks {
		fmt.Fprintf(&b, "%s%v", k, m.ordinals(qs[k]))
	}
	return b.String()
}

func c14key() string {
	m := c14m
	if m == nil || m.l == nil {
		return ""
	}
	var b strings.Builder
	b.WriteString(m.queueStr())
	for _, c := range m.cs {
		fmt.Fprintf(&b, "|%v%v%v%v%d", c.granted, c.unlock, c.done, c.gotErr, m.ord[c.id])
	}
	fmt.Fprintf(&b, "|%d", len(m.viol))
	return b.String()
}

// mustFailUnlock performs an Unlock that must be refused and must leave every holder where it is.
func (m *c14mon) mustFailUnlock(i int, key, id, kind string) {
	before := m.queueStr()
	m.cs[i].inCall = true
	err := m.l.Unlock(key, id)
	m.cs[i].inCall = false
	after := m.queueStr()
	if err == nil {
		m.fail("wrong-id-unlock-accepted:"+kind, fmt.Sprintf("caller %d: Unlock(%q, <%s id>) returned nil; queues %s -> %s", i, key, kind, before, after))
	}
	_ = after
}

func c14run(i int, ctx context.Context) {
	m := c14m
	c := m.cs[i]
	defer func() { c.done = true }()
	c.inCall = true
	id, err := m.l.Lock(ctx, c.key, time.Second)
	c.inCall = false
	if err != nil {
		c.gotErr = true
		if c.act != 'C' {
			m.fail("lock-error-without-cancel", fmt.Sprintf("caller %d: Lock returned %v although its context was never cancelled", i, err))
		}
		return
	}
	m.grantedTo(i, id)
	other := "x"
	if c.key == "x" {
		other = "y"
	}
	switch c.act {
	case 'T':
		return
	case 'B':
		m.mustFailUnlock(i, c.key, "00000000-0000-0000-0000-000000000000", "never-issued")
	case 'F':
		// the id currently granted on the other key, if any
		for _, o := range m.cs {
			if o.key == other && o.granted && !o.unlock {
				m.mustFailUnlock(i, c.key, o.id, "other-key")
				break
			}
		}
	}
	// own unlock: may only fail if the TTL already removed us
	qs := lock.VerifQueues(m.l)
	present := inList(qs[c.key], c.id)
	c.unlock, c.inCall = true, true
	err = m.l.Unlock(c.key, c.id)
	c.inCall = false
	if err != nil && present {
		// the TTL may fire between our look and the call; it is still a failure only if the id is STILL queued
		if inList(lock.VerifQueues(m.l)[c.key], c.id) {
			m.fail("own-unlock-refused", fmt.Sprintf("caller %d: Unlock(own id) returned %v while the id is still queued", i, err))
		}
	}
	if c.act == 'S' {
		m.mustFailUnlock(i, c.key, c.id, "stale")
	}
}

func c14body(progs []string) func() {
	return func() {
		m := &c14mon{l: lock.New(), ord: map[string]int{"": -1}, arrivals: map[string][]string{}, logs: c14logs}
		m.logs.reset()
		for _, p := range progs {
			m.cs = append(m.cs, &c14caller{key: p[:1], act: p[1]})
		}
		c14m = m
		var ths []*vrt.Thread
		for i, p := range progs {
			i := i
			ctx := context.Background()
			if p[1] == 'C' {
				var cancel context.CancelFunc
				ctx, cancel = context.WithCancel(ctx)
				vrt.NewEvent(fmt.Sprintf("cancel-caller%d", i), false, 0, 0, cancel)
			}
			ths = append(ths, vrt.Go(fmt.Sprintf("caller%d:%s", i, p), func() { c14run(i, ctx) }))
		}
		for _, th := range ths {
			vrt.Join(th)
		}
	}
}

var c14logs = &logCap{}

// c14fails is the oracle for one finished execution (reads the monitor of that execution).
func c14fails(x *vrt.Exec, ps []string, prop string) []vfail {
	m := c14m
	var out []vfail
	if x.Deadlock && prop == "C14" {
		out = append(out, vfail{"lock", "caller-blocked-forever", fmt.Sprintf("programs %v: no thread or timer can run; blocked: %v; queues %s", ps, x.Blocked, m.queueStr())})
	} else if !x.Deadlock && !x.Horizon {
		qs := lock.VerifQueues(m.l)
		waiting := 0
		for _, ids := range qs {
			waiting += len(ids)
		}
		if waiting > 0 && prop == "C14" {
			out = append(out, vfail{"lock", "terminal-queue-not-empty", fmt.Sprintf("programs %v: all callers and watchdogs finished but queues are %s", ps, m.queueStr())})
		} else if len(qs) > 0 && prop == "C28" && m.book == "" {
			out = append(out, vfail{"bookkeeping", "queue-object-retained-after-all-releases", fmt.Sprintf("programs %v: every lock is released or expired, yet %d per-key queue object(s) remain in the lock's map", ps, len(qs))})
		}
	}
	if prop == "C28" && m.book != "" {
		out = append(out, vfail{"bookkeeping", "queue-object-retained-for-unused-key-at-quiescence", fmt.Sprintf("programs %v: %s", ps, m.book)})
	}
	if x.Diverged != "" {
		out = append(out, vfail{"engine", "replay-diverged", x.Diverged})
	}
	for _, p := range x.Panics {
		out = append(out, vfail{"lock", "panic", "a managed thread panicked: " + p})
	}
	for _, l := range m.logs.take() {
		out = append(out, vfail{"lock", "recovered-panic", "a goroutine of the lock package panicked (recovered by SafeGo): " + l})
	}
	if prop == "C14" {
		for _, v := range m.viol {
			out = append(out, vfail{"lock", v.Signature, fmt.Sprintf("programs %v: %s", ps, v.What)})
		}
	}
	return out
}

func TestC14(t *testing.T) { c14main("C14") }

// C28 — lock bookkeeping does not grow: the same exploration with the bookkeeping oracle (at every scheduling
// decision the number of per-key queue objects is at most the number of keys in use; terminal states hold none).
func TestC28(t *testing.T) { c14main("C28") }

func c14main(prop string) {
	c14logs.install()
	r := kit.Start(prop, "model_checking")
	defer r.Finish()
	acts := []string{"xU", "xT", "xS", "xB", "xC", "xF", "yU", "yT"}
	var cfgs [][]string
	for i := range acts {
		for j := i; j < len(acts); j++ {
			cfgs = append(cfgs, []string{acts[i], acts[j]})
			for k := j; k < len(acts); k++ {
				cfgs = append(cfgs, []string{acts[i], acts[j], acts[k]})
			}
		}
	}
	sort.SliceStable(cfgs, func(i, j int) bool { return len(cfgs[i]) > len(cfgs[j]) })
	bound, bound2 := 2, 3
	if !r.Quick() {
		bound, bound2 = 3, -1
	}
	r.Extra["configurations"] = len(cfgs)
	r.Extra["deviation_bound_3_callers"] = bound
	r.Extra["deviation_bound_2_callers"] = bound2
	r.Rule = fmt.Sprintf("real lock.New() under the controlled scheduler; caller programs %v (first letter = key; U=Lock,Unlock(own) T=Lock then let the TTL release S=Lock,Unlock,Unlock(stale) B=Lock,Unlock(never-issued),Unlock(own) F=Lock,Unlock(id granted on the other key),Unlock(own) C=Lock with a context the environment may cancel at any time, Unlock if granted); every multiset of 2 and of 3 programs; TTL timers and cancellations are environment events enabled at every scheduling decision. 2 callers: every schedule with at most %s deviations; 3 callers: every schedule with at most %d deviations (quick tier: 1 for triples that use a program outside {xU,xT,xC,yT}) (a deviation = a preemption or an environment event fired while a program thread could run); revisited (state key, deviations used) pairs are pruned. Monitors at every scheduling decision: at most one caller per key is granted, not yet unlocking and still queued; at grant time no earlier arrival is still waiting; wrong-id unlocks are refused; own unlock succeeds unless the TTL fired; exact deadlock detection (no enabled thread or event while a caller or watchdog is unfinished); terminal states hold no queue object for any key (C28). Non-trivial = executions in which a caller had to wait behind another or an environment event fired early", acts, map[bool]string{true: "any number of", false: fmt.Sprint(bound2)}[bound2 < 0], bound)
	r.Assumptions = []string{"sequentially consistent memory (scheduling points at synchronisation operations only)", "all TTLs are equal (1 s virtual): timers fire in deadline order, so a TTL can expire at any decision at which it is the earliest armed timer", "presenting the holder's own id counts as the holder's unlock (ids are capabilities)"}
	if rc := replayCase(); rc != nil {
		ps := caseStrings(rc["programs"])
		for i := 0; i < 3; i++ {
			x := vrt.RunOnce(&vrt.Config{Bound: -1, TraceOn: true, StateKey: c14key, OnPoint: func() { c14m.observe() }}, caseInts(rc["schedule"]), c14body(ps))
			fmt.Printf("replay %d of %v: deadlock=%v diverged=%q violations=%v final queues %s\n", i, ps, x.Deadlock, x.Diverged, c14m.viol, c14m.queueStr())
			if i == 0 {
				for _, s := range x.Trace {
					fmt.Println("   ", s)
				}
			}
		}
		r.Eval(1)
		return
	}
	r.Parallel(16, "Test"+prop, func() {
		for ci := r.Next(); ci < len(cfgs); ci = r.Next() {
			ps := cfgs[ci]
			if r.OutOfTime() {
				r.NotExhaustive("time budget reached before all configurations were explored")
				break
			}
			body := c14body(ps)
			b := bound2
			if len(ps) >= 3 {
				b = bound
				if r.Quick() {
					for _, p := range ps {
						if !strings.Contains("xU xT xC yT", p) {
							b = 1 // quick tier: triples outside the core alphabet get one deviation
						}
					}
				}
			}
			e := &vrt.Explorer{Body: body, Stop: r.OutOfTime}
			e.Cfg = vrt.Config{Bound: b, StateKey: c14key, OnPoint: func() { c14m.observe() }}
			e.Check = func(x *vrt.Exec) {
				m := c14m
				r.Eval(1)
				if x.Cost > 0 || m.maxQ > 0 && len(m.ord) > 2 {
					r.Nontrivial(fmt.Sprintf("%d/%v", ci, x.Choices()))
				}
				ng, ne := 0, 0
				for _, c := range m.cs {
					if c.granted {
						ng++
					}
					if c.gotErr {
						ne++
					}
				}
				r.Outcome(fmt.Sprintf("granted=%d err=%d dl=%v viol=%d", ng, ne, x.Deadlock, len(m.viol)))
				cs := map[string]any{"programs": ps, "schedule": x.Choices(), "deviations": x.Cost}
				if !x.Deadlock && !x.Horizon && len(lock.VerifQueues(m.l)) > 0 {
					r.Count("terminal_states_with_retained_queue_objects", 1)
				}
				if x.Horizon {
					r.NotExhaustive("step horizon reached in an execution")
				}
				compute := func(x *vrt.Exec) []vfail { return c14fails(x, ps, prop) }
				vrtReport(r, e.Cfg, body, x, compute, cs)
			}
			e.Run()
			if os.Getenv("VERIF_DEBUG") != "" {
				fmt.Fprintf(os.Stderr, "cfg %v bound %d: execs=%d pruned=%d states=%d capped=%v maxpoints=%d\n", ps, b, e.Stats.Execs, e.Stats.Pruned, e.Stats.States, e.Stats.Capped, e.Stats.MaxPoints)
			}
			r.Count("executions", int64(e.Stats.Execs))
			r.Count("pruned_branches", int64(e.Stats.Pruned))
			r.Count("state_keys", int64(e.Stats.States))
			r.SetMax("max_points_per_execution", int64(e.Stats.MaxPoints))
			if e.Stats.Capped {
				r.NotExhaustive(fmt.Sprintf("configuration %v capped after %d executions", ps, e.Stats.Execs))
			}
			if ci == 1 {
				x := vrt.RunOnce(&vrt.Config{Bound: b, TraceOn: true}, nil, body)
				r.Sample(map[string]any{"programs": ps, "schedule": x.Choices(), "trace": x.Trace})
			}
		}
	})
}
