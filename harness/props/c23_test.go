package props

import (
	"fmt"
	"math/rand"
	"sort"
	"strings"
	"syscall"
	"testing"
	"time"

	"github.com/google/uuid"
	"github.com/hydraide/hydraide/app/core/filesystem"
	"github.com/hydraide/hydraide/app/core/hydra/swamp/beacon"
	"github.com/hydraide/hydraide/app/core/hydra/swamp/chronicler"
	v2 "github.com/hydraide/hydraide/app/core/hydra/swamp/chronicler/v2"
	"github.com/hydraide/hydraide/app/core/hydra/swamp/chronicler/v2/migrator"
	"github.com/hydraide/hydraide/app/core/hydra/swamp/metadata"
	"github.com/hydraide/hydraide/app/core/hydra/swamp/treasure"
	"github.com/hydraide/hydraide/app/core/hydra/swamp/treasure/guard"
	"github.com/hydraide/hydraide/app/name"
	"github.com/hydraide/hydraide/app/vshim/vmap"
	"github.com/hydraide/hydraide/app/vshim/vos"
	"github.com/hydraide/hydraide/app/vshim/vrt"
	"verifharness/kit"
)

// C23 — V1 -> V2 migration preserves exactly the loadable data.
// Legacy folders are produced by the REAL V1 chronicler (real filesystem + metadata packages over the in-memory
// file system) from every history of write batches over {new/modify, delete, shadow delete} on three keys, with a
// chunk size small enough that every record starts a new chunk file and with the default one. The real migrator
// (worker pool and progress reporter run as managed threads) then migrates the data directory, for every
// combination of Verify and DeleteOld, fault-free and with EVERY single injected fault (each read-side operation
// fails; each mutating operation fails; each write is also performed short).

type c23step struct {
	name  string
	batch [][3]string // key, value, "" | "d" delete | "s" shadow delete
}

var c23alphabet = []c23step{
	{"Wa1", [][3]string{{"a", "1", ""}}},
	{"Wb1", [][3]string{{"b", "1", ""}}},
	{"Wa2b2", [][3]string{{"a", "2", ""}, {"b", "2", ""}}},
	{"Wc" /* large */, [][3]string{{"c", "", "L"}}},
	{"Da", [][3]string{{"a", "", "d"}}},
	{"Db", [][3]string{{"b", "", "d"}}},
	{"Sa", [][3]string{{"a", "", "s"}}},
	{"Wa3Db", [][3]string{{"a", "3", ""}, {"b", "", "d"}}},
	{"Wa4b4c4", [][3]string{{"a", "4", ""}, {"b", "4", ""}, {"c", "4", ""}}},
}

const c23data = "/data"
const c23swamp = "/data/1/abc/swamp"
const c23name = "sanct/realm/swamp-23"

var c23big = strings.Repeat("0123456789abcdef", 256) // 4 KiB

// c23build runs the history on the V1 chronicler. Returns the keys whose delete was requested before the key was
// ever handed to the chronicler (skipped: the swamp never does that).
func c23build(steps []c23step, chunk int64, seed int64) {
	vos.UseMem()
	uuid.SetRand(rand.New(rand.NewSource(seed))) // chunk file names are UUIDs: make them a function of the history
	fsI := filesystem.New()
	md := metadata.New(c23swamp)
	md.LoadFromFile()
	md.SetSwampName(name.New().Sanctuary("sanct").Realm("realm").Swamp("swamp-23"))
	c := chronicler.New(c23swamp, chunk, 1, fsI, md)
	c.CreateDirectoryIfNotExists()
	fileOf := map[string]string{}
	c.RegisterFilePointerFunction(func(ev []*chronicler.FileNameEvent) error {
		for _, e := range ev {
			fileOf[e.TreasureKey] = e.FileName
		}
		return nil
	})
	clock := int64(1700000000)
	for _, s := range steps {
		var ts []treasure.Treasure
		for _, kv := range s.batch {
			fn, known := fileOf[kv[0]]
			if !known && (kv[2] == "d" || kv[2] == "s") {
				continue // deleting a record the store never saw: the swamp does not hand that to the chronicler
			}
			clock++
			t := treasure.New(nil)
			g := t.StartTreasureGuard(true, guard.BodyAuthID)
			t.BodySetKey(g, kv[0])
			switch kv[2] {
			case "L":
				t.SetContentString(g, c23big)
			default:
				t.SetContentString(g, kv[1])
			}
			t.SetCreatedAt(g, time.Unix(1700000000, 0))
			t.SetCreatedBy(g, "creator")
			t.SetModifiedAt(g, time.Unix(clock, 0))
			t.SetModifiedBy(g, "mod-"+s.name)
			if kv[0] == "b" {
				t.SetExpirationTime(g, time.Unix(4000000000, 0))
			}
			if known {
				t.BodySetFileName(g, fn)
			}
			if kv[2] == "d" {
				t.BodySetForDeletion(g, "deleter", false)
				delete(fileOf, kv[0])
			}
			if kv[2] == "s" {
				t.BodySetForDeletion(g, "deleter", true)
			}
			t.ReleaseTreasureGuard(g)
			ts = append(ts, t)
		}
		if len(ts) > 0 {
			c.Write(ts)
		}
	}
	md.SaveToFile()
	c.Close()
}

func c23render(b beacon.Beacon) string {
	var out []string
	for k, t := range b.GetAll() {
		v, _ := t.GetContentString()
		if len(v) > 8 {
			v = fmt.Sprintf("%s..%d", v[:4], len(v))
		}
		out = append(out, fmt.Sprintf("%s=%q/ct%d c=%d/%s m=%d/%s e=%d del=%d/%s/%v", k, v, t.GetContentType(), t.GetCreatedAt(), t.GetCreatedBy(),
			t.GetModifiedAt(), t.GetModifiedBy(), t.GetExpirationTime(), t.GetDeletedAt(), t.GetDeletedBy(), t.GetShadowDelete()))
	}
	sort.Strings(out)
	return strings.Join(out, " | ")
}

// c23loadV1 loads the legacy folder of the current image through a fresh V1 chronicler.
func c23loadV1() (string, bool) {
	if !vos.FS().Dirs[c23swamp] {
		return "", false
	}
	md := metadata.New(c23swamp)
	md.LoadFromFile()
	c := chronicler.New(c23swamp, 65536, 1, filesystem.New(), md)
	b := beacon.New()
	c.Load(b)
	return c23render(b), true
}

// c23loadV2 loads the migrated single file through a fresh V2 chronicler.
func c23loadV2() (string, string, bool) {
	if _, ok := vos.FS().Files[c23swamp+".hyd"]; !ok {
		return "", "", false
	}
	c := chronicler.NewV2WithName(c23swamp, 1, "")
	b := beacon.New()
	c.Load(b)
	c.Close()
	nm, _ := v2.ReadSwampName(c23swamp + ".hyd")
	return c23render(b), nm, true
}

// c23perm fixes the iteration order at every named range-over-map site: 0 ascending keys, 1 descending.
func c23perm(mode int) {
	if mode == 0 {
		vmap.Perm = nil
		return
	}
	vmap.Perm = func(site string, n int) []int {
		p := make([]int, n)
		for i := range p {
			p[i] = n - 1 - i
		}
		return p
	}
}

func c23chunkCount(img *vos.State) int {
	n := 0
	for p := range img.Files {
		if strings.HasPrefix(p, c23swamp+"/") && !strings.HasSuffix(p, "/meta") {
			n++
		}
	}
	return n
}

// c23legacyIntact: every file of the legacy folder in img is still there with the same bytes.
func c23legacyIntact(img *vos.State) bool {
	cur := vos.FS()
	for p, id := range img.Files {
		if !strings.HasPrefix(p, c23swamp+"/") {
			continue
		}
		b, ok := cur.FileBytes(p)
		if !ok || string(b) != string(img.Nodes[id]) {
			return false
		}
	}
	return true
}

func allPerms(n int) [][]int {
	if n > 6 {
		n = 0
	}
	var out [][]int
	p := make([]int, n)
	for i := range p {
		p[i] = i
	}
	var rec func(k int)
	rec = func(k int) {
		if k == n {
			out = append(out, append([]int(nil), p...))
			return
		}
		for i := k; i < n; i++ {
			p[k], p[i] = p[i], p[k]
			rec(k + 1)
			p[k], p[i] = p[i], p[k]
		}
	}
	rec(0)
	return out
}

type c23fault struct {
	read  bool
	at    int
	short int
}

func (f c23fault) String() string {
	if f.read {
		return fmt.Sprintf("read-side op#%d fails", f.at)
	}
	if f.short >= 0 {
		return fmt.Sprintf("mutating op#%d short write (%d bytes)", f.at, f.short)
	}
	return fmt.Sprintf("mutating op#%d fails", f.at)
}

type c23out struct {
	res      *migrator.Result
	err      error
	nReads   int
	log      []vos.Op
	fired    string
	exec     *vrt.Exec
	panicked string
}

// c23migrate runs the real migrator on the current image.
func c23migrate(verify, deleteOld bool, f *c23fault) *c23out {
	o := &c23out{}
	vos.ClearLog()
	vos.ResetReadSeq()
	if f != nil {
		if f.read {
			vos.ReadFault = func(seq int, kind, path string) error {
				if seq == f.at {
					o.fired = kind + " " + path
					return syscall.EIO
				}
				return nil
			}
		} else {
			vos.Fault = func(seq int, op *vos.Op) (error, int) {
				if seq != f.at || o.fired != "" {
					return nil, -1
				}
				o.fired = fmt.Sprintf("%s %s len=%d", op.Kind, op.Path, len(op.Data))
				if f.short >= 0 && op.Kind == vos.OpWrite && f.short < len(op.Data) {
					return syscall.ENOSPC, f.short
				}
				return syscall.EIO, -1
			}
		}
	}
	o.exec = seqRun(func() {
		m, err := migrator.New(migrator.Config{DataPath: c23data, Verify: verify, DeleteOld: deleteOld, Parallel: 2})
		if err != nil {
			o.err = err
			return
		}
		o.res, o.err = m.Run()
	})
	vos.Fault, vos.ReadFault = nil, nil
	o.nReads = vos.ReadSeq()
	o.log = append([]vos.Op(nil), vos.Log()...)
	if len(o.exec.Panics) > 0 {
		o.panicked = o.exec.Panics[0]
	}
	return o
}

func c23ops(kind string) string {
	if i := strings.IndexByte(kind, ' '); i > 0 {
		k, p := kind[:i], kind[i+1:]
		switch {
		case strings.HasSuffix(p, ".hyd"):
			p = "new-file"
		case strings.HasSuffix(p, "/meta"):
			p = "legacy-meta"
		case strings.HasPrefix(p, c23swamp+"/"):
			p = "legacy-chunk"
		case strings.HasPrefix(p, c23swamp):
			p = "legacy-folder"
		default:
			p = "data-dir"
		}
		if j := strings.IndexByte(p, ' '); j > 0 {
			p = p[:j]
		}
		return k + ":" + p
	}
	return kind
}

func TestC23(t *testing.T) {
	quietLogs()
	r := kit.Start("C23", "fault_enumeration")
	defer r.Finish()
	maxLen := 3
	if !r.Quick() {
		maxLen = 4
	}
	var names []string
	for _, s := range c23alphabet {
		names = append(names, s.name)
	}
	chunks := []int64{1, 65536}
	r.Rule = fmt.Sprintf("legacy folders = results of every history of length 1..%d over the write batches %v (Wc = 4 KiB value, D = delete, S = shadow delete; deletes of never-written keys skipped) executed by the real V1 chronicler (real filesystem and metadata packages) over the in-memory file system, with max chunk file size %v bytes (1 = every record opens a new chunk file); both map-iteration sites of the load paths (V1 Load over chunk files, migrator dedupe map) enumerated in ascending and descending order; then the real migrator.Run (worker pool of 2 and the progress reporter as managed threads, virtual clock) for Verify x DeleteOld in {false,true}^2, fault-free and with EVERY single fault: each read-side operation (open/read/readdir/stat) fails with EIO, each mutating operation (create/write/fsync/remove) fails with EIO, each write is also performed short (0, 1, len/2, len-1 bytes, ENOSPC). Oracle: (a) when the migrator reports success for the swamp, the new file loaded by a fresh V2 chronicler holds exactly the records (key, value, content type, created/modified at+by, expiry, deletion marks) a fresh V1 chronicler loaded from the legacy folder before the migration, and the swamp name read from the file equals the one in the legacy meta file; with DeleteOld the legacy folder may be gone only then; (b) when the migrator reports a failure (or a fault fired and success is not reported), the legacy folder still loads to exactly the original records; (c) no panic, no deadlock of the worker pool. Non-trivial = fault runs in which the fault fired", maxLen, names, chunks)
	r.Assumptions = []string{"one fault per migration run", "legacy folders are those the V1 chronicler itself produces (no hand-crafted duplicate keys across chunk files)"}
	r.Parallel(16, "TestC23", func() {
		forEachSeq(len(c23alphabet), maxLen, func(idx int, seq []int) bool {
			if !r.Mine(idx) {
				return true
			}
			if r.OutOfTime() {
				r.NotExhaustive("time budget reached; histories are explored shortest-first")
				return false
			}
			steps := make([]c23step, len(seq))
			hn := make([]string, len(seq))
			for i, s := range seq {
				steps[i], hn[i] = c23alphabet[s], c23alphabet[s].name
			}
			for _, chunk := range chunks {
				c23build(steps, chunk, 1)
				img := vos.FS().Clone()
				want, _ := c23loadV1()
				// A batch that overflows a chunk leaves the V1 engine without a file pointer for the overflowing record,
				// so a later update is stored as a second copy in another chunk file; what the legacy engine loads then
				// depends on the iteration order of its chunk-file map. The reference is therefore the SET of results
				// over every order of that map (all n! orders of the n chunk files).
				wantSet := map[string]bool{want: true}
				for _, pm := range allPerms(c23chunkCount(img)) {
					pm := pm
					vmap.Perm = func(site string, n int) []int {
						if site == "chroniclerV1.Load" && n == len(pm) {
							return pm
						}
						return nil
					}
					w2, _ := c23loadV1()
					wantSet[w2] = true
				}
				c23perm(0)
				if len(wantSet) > 1 {
					r.Count("legacy_folders_whose_load_depends_on_chunk_order", 1)
				}
				r.SetMax("max_chunk_files_in_a_legacy_folder", int64(c23chunkCount(img)))
				for mode := 0; mode < 4; mode++ {
					verify, del := mode&1 != 0, mode&2 != 0
					check := func(f *c23fault, perm int) *c23out {
						vos.SetFS(img.Clone())
						c23perm(perm)
						o := c23migrate(verify, del, f)
						c23perm(0)
						r.Eval(1)
						cs := map[string]any{"history": hn, "chunk_size": chunk, "verify": verify, "delete_old": del, "map_order": perm, "legacy_records": want}
						ftag := "fault-free"
						if f != nil {
							cs["fault"] = f.String()
							cs["faulted_operation"] = o.fired
							if o.fired == "" {
								r.Count("faults_that_did_not_fire", 1)
								return o
							}
							ftag = c23ops(o.fired)
							if f.short >= 0 {
								ftag += ":short"
							}
							r.Nontrivial(fmt.Sprintf("%v/%d/%d/%v", seq, chunk, mode, *f))
						}
						mtag := fmt.Sprintf("verify=%v,deleteOld=%v", verify, del)
						if o.panicked != "" {
							r.Fail("migration", "panic:"+ftag, fmt.Sprintf("history %v chunk=%d %s %v: migrator panicked: %s", hn, chunk, mtag, f, o.panicked), cs)
							return o
						}
						if o.exec.Deadlock || o.exec.Horizon {
							r.Fail("migration", "migrator-hangs:"+ftag, fmt.Sprintf("history %v chunk=%d %s %v: migrator.Run never returns (blocked: %v)", hn, chunk, mtag, f, o.exec.Blocked), cs)
							return o
						}
						success := o.err == nil && o.res != nil && len(o.res.FailedSwamps) == 0 && o.res.SuccessfulSwamps == o.res.TotalSwamps && o.res.TotalSwamps == 1
						cs["reported_success"] = success
						if o.res != nil {
							cs["failed_swamps"] = fmt.Sprint(o.res.FailedSwamps)
						}
						postV1, hasV1 := c23loadV1()
						intact := c23legacyIntact(img)
						gotV2, nm, hasV2 := c23loadV2()
						cs["after_v1"], cs["after_v2"], cs["after_name"] = postV1, gotV2, nm
						r.Outcome(fmt.Sprintf("%s/%s/success=%v/v1=%v/v2=%v", mtag, ftag, success, hasV1, hasV2))
						if success {
							if want == "" {
								// empty legacy swamp: no new file is required; nothing must load
								if hasV2 && gotV2 != "" {
									r.Fail("migration", "records-appear-from-nowhere", fmt.Sprintf("history %v: empty legacy swamp migrates to {%s}", hn, gotV2), cs)
								}
								return o
							}
							if !hasV2 {
								r.Fail("migration", "success-without-new-file:"+ftag, fmt.Sprintf("history %v chunk=%d %s %v: migrator reports success but no .hyd file exists (legacy folder present: %v)", hn, chunk, mtag, f, hasV1), cs)
							} else if !wantSet[gotV2] {
								r.Fail("migration", "migrated-records-differ:"+ftag, fmt.Sprintf("history %v chunk=%d %s %v: legacy engine loads {%s}; migrated file loads {%s}", hn, chunk, mtag, f, want, gotV2), cs)
							} else if nm != c23name {
								r.Fail("migration", "swamp-name-not-preserved:"+ftag, fmt.Sprintf("history %v chunk=%d %s %v: swamp name in the migrated file is %q, legacy meta has %q", hn, chunk, mtag, f, nm, c23name), cs)
							}
							if !del && !intact {
								r.Fail("migration", "legacy-data-changed-without-DeleteOld:"+ftag, fmt.Sprintf("history %v chunk=%d %s %v: DeleteOld is off but the legacy folder now loads {%s} (was {%s})", hn, chunk, mtag, f, postV1, want), cs)
							}
							return o
						}
						// failure reported (or Run returned an error): legacy data must be intact
						if !intact {
							r.Fail("migration", "legacy-data-damaged-after-failed-migration:"+ftag, fmt.Sprintf("history %v chunk=%d %s %v: migration did not succeed, yet the legacy folder loads {%s} (was {%s}; folder present: %v)", hn, chunk, mtag, f, postV1, want, hasV1), cs)
						}
						if f == nil {
							r.Fail("migration", "fault-free-migration-fails", fmt.Sprintf("history %v chunk=%d %s: fault-free migration reports failure: err=%v failed=%v", hn, chunk, mtag, o.err, cs["failed_swamps"]), cs)
						}
						return o
					}
					base := check(nil, 0)
					check(nil, 1)
					if idx == 40 && mode == 3 && chunk == 1 {
						r.Sample(map[string]any{"history": hn, "legacy_records": want, "read_ops": base.nReads, "mutating_ops": len(base.log)})
					}
					for k := 0; k < base.nReads; k++ {
						check(&c23fault{read: true, at: k, short: -1}, 0)
					}
					for k, op := range base.log {
						check(&c23fault{at: k, short: -1}, 0)
						if op.Kind == vos.OpWrite && len(op.Data) > 0 {
							seen := map[int]bool{}
							for _, b := range []int{0, 1, len(op.Data) / 2, len(op.Data) - 1} {
								if b >= 0 && b < len(op.Data) && !seen[b] {
									seen[b] = true
									check(&c23fault{at: k, short: b}, 0)
								}
							}
						}
					}
				}
			}
			return true
		})
	})
}
