package props

import (
	"fmt"
	"sort"
	"strings"
	"testing"

	"github.com/hydraide/hydraide/app/name"
	"github.com/hydraide/hydraide/sdk/go/hydraidego/v3"
	"github.com/hydraide/hydraide/sdk/go/hydraidego/v3/hydrex"
	"verifharness/kit"
)

// C27 — Hydrex reverse index stays consistent with core data.
// Every history up to a depth over Save (every subset of two keys with two values, on two domains, plus one save in a
// second index), Destroy and "all swamps closed" (the idle close every Hydrex swamp is registered with), run through
// the real hydrex package and the real Go SDK against the in-process server (requests and responses pass through
// the protobuf wire format). After each history every domain and every key is read back and compared with a plain
// map model.

type c27op struct {
	name string
	run  func(hx hydrex.Hydrex, rg *rigT, idx [2]string)
	mod  func(m c27model)
}

// model: index -> domain -> key -> value
type c27model map[string]map[string]map[string]string

func (m c27model) canon() string {
	var p []string
	for ix, ds := range m {
		for d, kv := range ds {
			for k, v := range kv {
				p = append(p, ix+"/"+d+"/"+k+"="+v)
			}
		}
	}
	sort.Strings(p)
	return strings.Join(p, ",")
}

func c27ops() []c27op {
	var ops []c27op
	items := []map[string]string{{}, {"k1": "v1"}, {"k1": "v2"}, {"k2": "v1"}, {"k1": "v1", "k2": "v1"}, {"k1": "v2", "k2": "v2"}}
	save := func(ixn int, dom string, it map[string]string) c27op {
		var ks []string
		for k, v := range it {
			ks = append(ks, k+":"+v)
		}
		sort.Strings(ks)
		return c27op{fmt.Sprintf("Save(%s,%s,{%s})", []string{"I", "J"}[ixn], dom, strings.Join(ks, ",")),
			func(hx hydrex.Hydrex, rg *rigT, idx [2]string) {
				in := map[string]*hydrex.CoreData{}
				for k, v := range it {
					in[k] = &hydrex.CoreData{Key: k, Value: v}
				}
				hx.Save(bg, idx[ixn], dom, in)
			},
			func(m c27model) {
				ix := []string{"I", "J"}[ixn]
				if m[ix] == nil {
					m[ix] = map[string]map[string]string{}
				}
				cp := map[string]string{}
				for k, v := range it {
					cp[k] = v
				}
				if len(cp) == 0 {
					delete(m[ix], dom)
				} else {
					m[ix][dom] = cp
				}
			}}
	}
	for _, d := range []string{"d1", "d2"} {
		for _, it := range items {
			ops = append(ops, save(0, d, it))
		}
	}
	ops = append(ops, save(1, "d1", items[1]))
	for _, d := range []string{"d1", "d2"} {
		d := d
		ops = append(ops, c27op{"Destroy(I," + d + ")",
			func(hx hydrex.Hydrex, rg *rigT, idx [2]string) { hx.Destroy(bg, idx[0], d) },
			func(m c27model) { delete(m["I"], d) }})
	}
	ops = append(ops, c27op{"AllSwampsClose",
		func(hx hydrex.Hydrex, rg *rigT, idx [2]string) {
			h := rg.z.GetHydra()
			for _, n := range h.ListActiveSwamps() {
				if strings.Contains(n, idx[0]) || strings.Contains(n, idx[1]) {
					if s, err := h.SummonSwamp(bg, 1, name.Load(n)); err == nil {
						s.Close()
					}
				}
			}
		},
		func(m c27model) {}})
	return ops
}

func TestC27(t *testing.T) {
	quietLogs()
	rigSetup()
	r := kit.Start("C27", "model_checking")
	defer r.Finish()
	depth := 3
	if !r.Quick() {
		depth = 4
	}
	ops := c27ops()
	var names []string
	for _, o := range ops {
		names = append(names, o.name)
	}
	r.Rule = fmt.Sprintf("every history of length 1..%d over %d operations %v run through the real hydrex package on the real Go SDK (hydraidego.New on an in-process client whose calls pass request and response through the protobuf wire format into the real Gateway) on a fresh index name per history; persistent swamps as Hydrex registers them, on the in-memory file system; AllSwampsClose = the idle close (write + close + later reload from file). After the history: GetCoreData for both domains of both indexes and GetIndexData for both keys of both indexes. Oracle (plain map model): a domain reads back exactly the keys and values of its last Save (nothing after Destroy or a Save of nothing); a key lists exactly the domains whose current data holds it; the second index never sees the first. Non-trivial = histories after which at least one domain holds data", depth, len(ops), names)
	r.Assumptions = []string{"two domains, two keys, two values, two index names (small scope)", "single client (the property quantifies over histories)"}
	var hists [][]int
	forEachSeq(len(ops), depth, func(idx int, seq []int) bool {
		hists = append(hists, append([]int(nil), seq...))
		return true
	})
	r.Extra["histories"] = len(hists)
	r.Parallel(16, "TestC27", func() {
		type res struct {
			core  map[string]string // "I/d1" -> "k1=v1,k2=v1"
			index map[string]string // "I/k1" -> "d1,d2"
		}
		results := make([]*res, len(hists))
		want := func(i int) bool { return r.Mine(i) && !r.OutOfTime() }
		bad := rigBatch(len(hists), want, func(rg *rigT, i int) {
			idx := [2]string{fmt.Sprintf("i%d", i), fmt.Sprintf("j%d", i)}
			hx := hydrex.New(hydraidego.New(newSDKClient(rg)))
			for _, oi := range hists[i] {
				ops[oi].run(hx, rg, idx)
			}
			o := &res{core: map[string]string{}, index: map[string]string{}}
			for xi, ix := range []string{"I", "J"} {
				for _, d := range []string{"d1", "d2"} {
					var p []string
					for _, cd := range hx.GetCoreData(bg, idx[xi], d) {
						p = append(p, cd.Key+"="+cd.Value)
					}
					sort.Strings(p)
					o.core[ix+"/"+d] = strings.Join(p, ",")
				}
				for _, k := range []string{"k1", "k2"} {
					var p []string
					for _, id := range hx.GetIndexData(bg, idx[xi], k) {
						p = append(p, id.Domain)
					}
					sort.Strings(p)
					o.index[ix+"/"+k] = strings.Join(p, ",")
				}
			}
			results[i] = o
			// leave nothing behind on the shared server
			for xi := range idx {
				for _, d := range []string{"d1", "d2"} {
					hx.Destroy(bg, idx[xi], d)
				}
				for _, k := range []string{"k1", "k2"} {
					rg.destroy("hydraideIndex/" + idx[xi] + "/" + k)
				}
			}
		})
		if r.OutOfTime() {
			r.NotExhaustive("time budget reached")
		}
		for i, h := range hists {
			var hn []string
			for _, x := range h {
				hn = append(hn, ops[x].name)
			}
			if x, ok := bad[i]; ok {
				r.Eval(1)
				r.Fail("hydrex", "call-never-returns-or-panics", fmt.Sprintf("history %v: deadlock=%v blocked=%v panics=%v", hn, x.Deadlock, x.Blocked, x.Panics), map[string]any{"history": hn})
				continue
			}
			o := results[i]
			if o == nil {
				continue
			}
			m := c27model{}
			closed := false
			for _, x := range h {
				ops[x].mod(m)
				closed = closed || ops[x].name == "AllSwampsClose"
			}
			r.Eval(8)
			r.Outcome(m.canon())
			if m.canon() != "" {
				r.Nontrivial(fmt.Sprint(h))
			}
			after := ""
			if closed {
				after = ":after-close"
			}
			cs := map[string]any{"history": hn, "model": m.canon(), "core_read": o.core, "index_read": o.index}
			for _, ix := range []string{"I", "J"} {
				for _, d := range []string{"d1", "d2"} {
					var p []string
					for k, v := range m[ix][d] {
						p = append(p, k+"="+v)
					}
					sort.Strings(p)
					wantS := strings.Join(p, ",")
					if got := o.core[ix+"/"+d]; got != wantS {
						kind := "wrong-items"
						gk, wk := c27keys(got), c27keys(wantS)
						switch {
						case gk == wk:
							kind = "stale-value"
						case wantS == "":
							kind = "items-survive"
						case got == "":
							kind = "items-lost"
						}
						r.Fail("hydrex", "core-data:"+kind+after, fmt.Sprintf("history %v: domain %s of index %s reads {%s}, last saved {%s}", hn, d, ix, got, wantS), cs)
					}
				}
				for _, k := range []string{"k1", "k2"} {
					var p []string
					for d, kv := range m[ix] {
						if _, ok := kv[k]; ok {
							p = append(p, d)
						}
					}
					sort.Strings(p)
					wantS := strings.Join(p, ",")
					if got := o.index[ix+"/"+k]; got != wantS {
						kind := "wrong-domains"
						if len(got) > len(wantS) {
							kind = "lists-a-domain-that-no-longer-has-the-key"
						} else if len(got) < len(wantS) {
							kind = "misses-a-domain-that-has-the-key"
						}
						r.Fail("hydrex", "index:"+kind+after, fmt.Sprintf("history %v: key %s of index %s lists [%s], domains holding it [%s]", hn, k, ix, got, wantS), cs)
					}
				}
			}
			if i == 700 {
				r.Sample(cs)
			}
		}
	})
}

func c27keys(s string) string {
	var k []string
	for _, p := range strings.Split(s, ",") {
		k = append(k, strings.SplitN(p, "=", 2)[0])
	}
	return strings.Join(k, ",")
}
