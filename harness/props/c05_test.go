package props

import (
	"bytes"
	"fmt"
	"sort"
	"strings"
	"testing"

	"github.com/hydraide/hydraide/app/vshim/vrt"
	hydrapb "github.com/hydraide/hydraide/sdk/go/hydraidego/v3/hydraidepbgo"
	"github.com/vmihailenco/msgpack/v5"
	"verifharness/kit"
)

// C05 — close and reload preserve every record exactly.
// Breadth-first search over the states of a persistent swamp reached by histories of API calls; in every state
// the client-visible contents are read, the swamp is closed (the call idle eviction and shutdown make), it is
// summoned again from its file, and the contents are read again. The two readings must be identical.

type gwOp struct {
	name string
	run  func(r *rigT, swamp string)
}

func p[T any](v T) *T { return &v }

// c05setOps builds the Set symbols for one key: 15 content types x {zero-like, non-zero} x {no metadata, all}.
func c05setOps(key string) []gwOp {
	type tv struct {
		name string
		set  func(kv *hydrapb.KeyValuePair, zero bool)
	}
	pick := func(zero bool, z, nz int64) int64 {
		if zero {
			return z
		}
		return nz
	}
	tvs := []tv{
		{"i8", func(kv *hydrapb.KeyValuePair, z bool) { kv.Int8Val = p(int32(pick(z, 0, -7))) }},
		{"i16", func(kv *hydrapb.KeyValuePair, z bool) { kv.Int16Val = p(int32(pick(z, 0, 300))) }},
		{"i32", func(kv *hydrapb.KeyValuePair, z bool) { kv.Int32Val = p(int32(pick(z, 0, -70000))) }},
		{"i64", func(kv *hydrapb.KeyValuePair, z bool) { kv.Int64Val = p(pick(z, 0, 1<<40)) }},
		{"u8", func(kv *hydrapb.KeyValuePair, z bool) { kv.Uint8Val = p(uint32(pick(z, 0, 200))) }},
		{"u16", func(kv *hydrapb.KeyValuePair, z bool) { kv.Uint16Val = p(uint32(pick(z, 0, 60000))) }},
		{"u32", func(kv *hydrapb.KeyValuePair, z bool) { kv.Uint32Val = p(uint32(pick(z, 0, 4000000000))) }},
		{"u64", func(kv *hydrapb.KeyValuePair, z bool) { kv.Uint64Val = p(uint64(pick(z, 0, 1<<50))) }},
		{"f32", func(kv *hydrapb.KeyValuePair, z bool) {
			if z {
				kv.Float32Val = p(float32(0))
			} else {
				kv.Float32Val = p(float32(1.5))
			}
		}},
		{"f64", func(kv *hydrapb.KeyValuePair, z bool) {
			if z {
				kv.Float64Val = p(float64(0))
			} else {
				kv.Float64Val = p(float64(-2.25))
			}
		}},
		{"str", func(kv *hydrapb.KeyValuePair, z bool) {
			if z {
				kv.StringVal = p("")
			} else {
				kv.StringVal = p("héllo")
			}
		}},
		{"bool", func(kv *hydrapb.KeyValuePair, z bool) {
			if z {
				kv.BoolVal = hydrapb.Boolean_FALSE.Enum()
			} else {
				kv.BoolVal = hydrapb.Boolean_TRUE.Enum()
			}
		}},
		{"bytes", func(kv *hydrapb.KeyValuePair, z bool) {
			if z {
				kv.BytesVal = []byte{}
			} else {
				kv.BytesVal = []byte{0, 1, 0xff}
			}
		}},
		{"slice", func(kv *hydrapb.KeyValuePair, z bool) {
			if z {
				kv.Uint32Slice = []uint32{0}
			} else {
				kv.Uint32Slice = []uint32{7, 9}
			}
		}},
		{"void", func(kv *hydrapb.KeyValuePair, z bool) { kv.VoidVal = p(true) }},
	}
	var ops []gwOp
	for _, t := range tvs {
		for _, zero := range []bool{true, false} {
			if t.name == "void" && !zero {
				continue
			}
			for _, meta := range []bool{false, true} {
				t, zero, meta := t, zero, meta
				n := fmt.Sprintf("Set(%s,%s:%s%s)", key, t.name, map[bool]string{true: "zero", false: "nonzero"}[zero], map[bool]string{true: ",meta", false: ""}[meta])
				ops = append(ops, gwOp{n, func(r *rigT, swamp string) {
					kv := &hydrapb.KeyValuePair{Key: key}
					t.set(kv, zero)
					if meta {
						kv.CreatedAt, kv.CreatedBy = ts(1700000001), p("creator")
						kv.UpdatedAt, kv.UpdatedBy = ts(1700000002), p("updater")
						kv.ExpiredAt = ts(1700000003)
					}
					r.gw.Set(bg, &hydrapb.SetRequest{Swamps: []*hydrapb.SwampRequest{{IslandID: 1, SwampName: swamp, CreateIfNotExist: true, Overwrite: true, KeyValues: []*hydrapb.KeyValuePair{kv}}}})
				}})
			}
		}
	}
	return ops
}

// mp encodes v as MessagePack with map keys in sorted order: the bytes of a test input must not depend on Go's
// map iteration order (a body that is byte-identical to the stored one takes a different path through Save than one
// whose fields are merely in another order).
func mp(v any) []byte {
	var buf bytes.Buffer
	enc := msgpack.NewEncoder(&buf)
	enc.SetSortMapKeys(true)
	if err := enc.Encode(v); err != nil {
		panic(err)
	}
	return buf.Bytes()
}

func c05ops() []gwOp {
	var ops []gwOp
	for _, key := range []string{"a", "b"} {
		key := key
		ops = append(ops, c05setOps(key)...)
		ops = append(ops,
			gwOp{"Delete(" + key + ")", func(r *rigT, s string) {
				r.gw.Delete(bg, &hydrapb.DeleteRequest{Swamps: []*hydrapb.DeleteRequest_SwampKeys{{IslandID: 1, SwampName: s, Keys: []string{key}}}})
			}},
			gwOp{"IncInt32(" + key + ",+0)", func(r *rigT, s string) {
				r.gw.IncrementInt32(bg, &hydrapb.IncrementInt32Request{IslandID: 1, SwampName: s, Key: key, IncrementBy: 0})
			}},
			gwOp{"IncInt32(" + key + ",+5,meta)", func(r *rigT, s string) {
				r.gw.IncrementInt32(bg, &hydrapb.IncrementInt32Request{IslandID: 1, SwampName: s, Key: key, IncrementBy: 5,
					SetIfNotExist: &hydrapb.IncrementRequestMetadata{CreatedAt: p(true), CreatedBy: p("inc"), ExpiredAt: ts(1700000009)},
					SetIfExist:    &hydrapb.IncrementRequestMetadata{UpdatedAt: p(true), UpdatedBy: p("inc2")}})
			}},
			gwOp{"IncFloat64(" + key + ",+0)", func(r *rigT, s string) {
				r.gw.IncrementFloat64(bg, &hydrapb.IncrementFloat64Request{IslandID: 1, SwampName: s, Key: key, IncrementBy: 0})
			}},
			gwOp{"IncUint8(" + key + ",+0)", func(r *rigT, s string) {
				r.gw.IncrementUint8(bg, &hydrapb.IncrementUint8Request{IslandID: 1, SwampName: s, Key: key, IncrementBy: 0})
			}},
			gwOp{"SlicePush(" + key + ",[7])", func(r *rigT, s string) {
				r.gw.Uint32SlicePush(bg, &hydrapb.AddToUint32SlicePushRequest{IslandID: 1, SwampName: s, KeySlicePairs: []*hydrapb.KeySlicePair{{Key: key, Values: []uint32{7}}}})
			}},
			gwOp{"SliceDelete(" + key + ",[7])", func(r *rigT, s string) {
				r.gw.Uint32SliceDelete(bg, &hydrapb.Uint32SliceDeleteRequest{IslandID: 1, SwampName: s, KeySlicePairs: []*hydrapb.KeySlicePair{{Key: key, Values: []uint32{7}}}})
			}},
			gwOp{"Patch(" + key + ",create,n=0,s='',l=[])", func(r *rigT, s string) {
				r.gw.PatchTreasures(bg, &hydrapb.PatchTreasuresRequest{IslandID: 1, SwampName: s, CreateIfNotExist: true, InitialMsgpackOnCreate: mp(map[string]any{}),
					Patches: []*hydrapb.TreasurePatch{{Key: key, Ops: []*hydrapb.PatchOp{
						{Op: hydrapb.PatchOp_SET, Path: "n", Value: mp(0)}, {Op: hydrapb.PatchOp_SET, Path: "s", Value: mp("")}, {Op: hydrapb.PatchOp_SET, Path: "l", Value: mp([]int{})}}}},
					Meta: &hydrapb.PatchMeta{SetUpdatedAt: true, SetUpdatedBy: p("patcher"), SetExpiredAt: ts(1700000011)}})
			}},
			gwOp{"Patch(" + key + ",clear-expiry)", func(r *rigT, s string) {
				r.gw.PatchTreasures(bg, &hydrapb.PatchTreasuresRequest{IslandID: 1, SwampName: s, CreateIfNotExist: false,
					Patches: []*hydrapb.TreasurePatch{{Key: key, Ops: []*hydrapb.PatchOp{{Op: hydrapb.PatchOp_SET, Path: "z", Value: mp(false)}}}},
					Meta:    &hydrapb.PatchMeta{ClearExpiredAt: true}})
			}},
		)
	}
	return ops
}

// snapshot reads everything a client can see of the swamp: existence, Get of both keys, the KEY index, Count.
func c05snapshot(r *rigT, swamp string) string {
	var b strings.Builder
	ex, _ := r.gw.IsSwampExist(bg, &hydrapb.IsSwampExistRequest{IslandID: 1, SwampName: swamp})
	if ex == nil || !ex.IsExist {
		return "swamp-absent"
	}
	g, err := r.gw.Get(bg, &hydrapb.GetRequest{Swamps: []*hydrapb.GetSwamp{{IslandID: 1, SwampName: swamp, Keys: []string{"a", "b"}}}})
	if err != nil {
		return "get-error:" + err.Error()
	}
	for _, s := range g.Swamps {
		fmt.Fprintf(&b, "exist=%v [%s]", s.IsExist, treasuresStr(s.Treasures, false))
	}
	idx, err := r.gw.GetByIndex(bg, &hydrapb.GetByIndexRequest{IslandID: 1, SwampName: swamp, IndexType: hydrapb.IndexType_KEY, OrderType: hydrapb.OrderType_ASC})
	if err != nil {
		fmt.Fprintf(&b, " index-error:%v", err)
	} else {
		fmt.Fprintf(&b, " index[%s]", treasuresStr(idx.Treasures, false))
	}
	c, err := r.gw.Count(bg, &hydrapb.CountRequest{Swamps: []*hydrapb.CountRequest_SwampIdentifier{{IslandID: 1, SwampName: swamp}}})
	if err == nil && len(c.Swamps) == 1 {
		fmt.Fprintf(&b, " count=%d", c.Swamps[0].Count)
	}
	return b.String()
}

type c05result struct {
	before, after string
	closed        bool
}

// c05hist executes one history on its own swamp of the shared server and returns the two readings.
func c05hist(r *rigT, ops []gwOp, hist []int, swamp string) c05result {
	var res c05result
	for _, o := range hist {
		vrt.Advance(1e9) // one virtual second per call: distinct server-side timestamps
		ops[o].run(r, swamp)
	}
	res.before = c05snapshot(r, swamp)
	res.closed = r.closeSwamp(swamp)
	res.after = c05snapshot(r, swamp)
	r.destroy(swamp)
	return res
}

// c05classify names the class of a difference between the two readings (observable facts only).
func c05classify(before, after string) []string {
	if after == "swamp-absent" {
		return []string{"swamp-gone-after-reload"}
	}
	bt, at := strings.Split(before, " | "), strings.Split(after, " | ")
	_ = bt
	_ = at
	kinds := map[string]bool{}
	rb, ra := splitRecords(before), splitRecords(after)
	for k, vb := range rb {
		va, ok := ra[k]
		if !ok {
			kinds["record-missing"] = true
			continue
		}
		if vb == va {
			continue
		}
		fb, fa := strings.Fields(vb), strings.Fields(va)
		if len(fb) == 0 || len(fa) == 0 {
			kinds["record-differs"] = true
			continue
		}
		if fb[0] != fa[0] {
			tb := strings.SplitN(fb[0], ":", 2)[0]
			if fa[0] == "void" {
				kinds["zero-value-of-"+tb+"-reloads-as-void"] = true
			} else {
				kinds["value-differs:"+tb] = true
			}
		}
		if strings.Join(fb[1:], " ") != strings.Join(fa[1:], " ") {
			kinds["metadata-differs"] = true
		}
	}
	for k := range ra {
		if _, ok := rb[k]; !ok {
			kinds["record-appears"] = true
		}
	}
	if len(kinds) == 0 {
		return []string{"reading-differs"}
	}
	var ks []string
	for k := range kinds {
		ks = append(ks, k)
	}
	sort.Strings(ks)
	return ks
}

// splitRecords extracts "key -> rendered record" from the Get part of a snapshot.
func splitRecords(snap string) map[string]string {
	out := map[string]string{}
	i := strings.Index(snap, "[")
	j := strings.Index(snap, "] index")
	if i < 0 || j < i {
		return out
	}
	for _, rec := range strings.Split(snap[i+1:j], " | ") {
		if k := strings.SplitN(rec, ":", 2); len(k) == 2 {
			out[k[0]] = k[1]
		}
	}
	return out
}

func TestC05(t *testing.T) {
	rigSetup()
	logs := &logCap{}
	logs.install()
	r := kit.Start("C05", "model_checking")
	defer r.Finish()
	ops := c05ops()
	depth := 2
	if !r.Quick() {
		depth = 3
	}
	var names []string
	for _, o := range ops {
		names = append(names, o.name)
	}
	r.Extra["alphabet_size"] = len(ops)
	r.Extra["depth"] = depth
	r.Rule = fmt.Sprintf("breadth-first search over client-visible states of a persistent swamp (write interval 1 s and immediate-write), %d operations on keys a,b (Set of 15 content types x zero/non-zero x with/without the five metadata fields; Delete; IncrementInt32/Float64/Uint8 by 0 and by 5 with metadata; Uint32SlicePush/Delete; PatchTreasures creating a body with zero-like fields, clearing the expiry), depth %d; a state is expanded once (first history reaching it); each transition replays the history on a fresh in-process server on the in-memory file system and adds one call. In every visited state: reading (IsSwampExist, Get a,b, GetByIndex KEY, Count) -> swamp.Close() -> re-summon from the file -> same reading; the readings must be equal. Second part, without state merging (what is queued for the writer and what is on disk is hidden state): EVERY history of length <= 5 (thorough 6) over {Set(a,1), Set(a,2), Delete(a), Inc(a), write-interval Flush, CloseReopen} next to an untouched record, same differential at the end. Non-trivial = states holding at least one record", len(ops), depth)
	r.Assumptions = []string{"the swamp is closed through swamp.Close(), the function the idle-close listener and GracefulStop call", "requests are issued one at a time by a single client thread under the controlled scheduler (virtual clock advanced 1 s per call)"}
	confs := []string{"dsk", "imm"}
	first := !r.IsWorker() || r.Mine(0)
	r.Parallel(16, "TestC05", func() {
		for _, conf := range confs {
			seen := map[string]bool{"swamp-absent": true}
			frontier := [][]int{{}}
			for d := 1; d <= depth; d++ {
				last := d == depth
				count := last || first
				var hists [][]int
				for _, h := range frontier {
					for o := range ops {
						hists = append(hists, append(append([]int{}, h...), o))
					}
				}
				results := make([]*c05result, len(hists))
				want := func(i int) bool { return (!last || r.Mine(i)) && !r.OutOfTime() }
				bad := rigBatch(len(hists), want, func(rg *rigT, i int) {
					res := c05hist(rg, ops, hists[i], fmt.Sprintf("%s/r/h%d", conf, i))
					results[i] = &res
				})
				if r.OutOfTime() {
					r.NotExhaustive("time budget reached")
					return
				}
				var next [][]int
				for i, hist := range hists {
					var hn []string
					for _, x := range hist {
						hn = append(hn, ops[x].name)
					}
					if x, ok := bad[i]; ok && count {
						r.Eval(1)
						cs := map[string]any{"config": conf, "history": hn}
						if x.Deadlock || x.Horizon {
							r.Fail("reload", "request-never-returns", fmt.Sprintf("[%s] history %v: the client thread is blocked: %v", conf, hn, x.Blocked), cs)
						}
						for _, pn := range x.Panics {
							r.Fail("reload", "panic", fmt.Sprintf("[%s] history %v: %s", conf, hn, pn), cs)
						}
						continue
					}
					res := results[i]
					if res == nil {
						continue
					}
					cs := map[string]any{"config": conf, "history": hn, "before_close": res.before, "after_reload": res.after}
					if !seen[res.before] {
						seen[res.before] = true
						next = append(next, hist)
						if count {
							r.Outcome(conf + res.before)
							if res.before != "swamp-absent" {
								r.Nontrivial(conf + res.before)
							}
						}
					}
					if !count {
						continue
					}
					r.Eval(1)
					r.Count("transitions", 1)
					if res.after == "swamp-absent" && strings.HasSuffix(res.before, "index[] count=0") {
						// a swamp that holds no record has no file: nothing to preserve, no key changes its existence
						r.Count("empty_swamps_not_persisted", 1)
					} else if res.before != res.after {
						for _, k := range c05classify(res.before, res.after) {
							r.Fail("reload", k, fmt.Sprintf("[%s] history %v: before close {%s} after reload {%s}", conf, hn, res.before, res.after), cs)
						}
					}
					if d == 2 && res.before != "swamp-absent" {
						r.Sample(cs)
					}
				}
				frontier = next
				if first {
					r.Count("states_"+conf, int64(len(next)))
				}
			}
		}
		c05lifecycle(r)
	})
	_ = logs
}

// c05lifecycle: the same close/reload differential over EVERY history (no state merging: what is in the write queue
// and what is on disk is hidden state) of a small alphabet that moves one key through its storage life cycle - set,
// overwrite, delete, increment, write-interval flush, close and re-open - next to a record that is never touched.
func c05lifecycle(r *kit.Run) {
	type lop struct {
		name string
		run  func(rg *rigT, sw string)
	}
	set := func(v int32) func(rg *rigT, sw string) {
		return func(rg *rigT, sw string) {
			rg.gw.Set(bg, &hydrapb.SetRequest{Swamps: []*hydrapb.SwampRequest{{IslandID: 1, SwampName: sw, CreateIfNotExist: true, Overwrite: true, KeyValues: []*hydrapb.KeyValuePair{{Key: "a", Int32Val: p(v)}}}}})
		}
	}
	ops := []lop{
		{"Set(a,1)", set(1)},
		{"Set(a,2)", set(2)},
		{"Delete(a)", func(rg *rigT, sw string) {
			rg.gw.Delete(bg, &hydrapb.DeleteRequest{Swamps: []*hydrapb.DeleteRequest_SwampKeys{{IslandID: 1, SwampName: sw, Keys: []string{"a"}}}})
		}},
		{"Inc(a)", func(rg *rigT, sw string) {
			rg.gw.IncrementInt32(bg, &hydrapb.IncrementInt32Request{IslandID: 1, SwampName: sw, Key: "a", IncrementBy: 1})
		}},
		{"Flush", func(rg *rigT, sw string) { rg.flush(sw) }},
		{"CloseReopen", func(rg *rigT, sw string) { rg.closeSwamp(sw) }},
	}
	maxLen := 5
	if !r.Quick() {
		maxLen = 6
	}
	var hists [][]int
	forEachSeq(len(ops), maxLen, func(idx int, seq []int) bool {
		hists = append(hists, append([]int(nil), seq...))
		return true
	})
	var on []string
	for _, o := range ops {
		on = append(on, o.name)
	}
	r.Extra["lifecycle_alphabet"] = on
	r.Extra["lifecycle_histories"] = len(hists)
	results := make([]*c05result, len(hists))
	want := func(i int) bool { return r.Mine(i) && !r.OutOfTime() }
	bad := rigBatch(len(hists), want, func(rg *rigT, i int) {
		sw := fmt.Sprintf("dsk/r/l%d", i)
		rg.gw.Set(bg, &hydrapb.SetRequest{Swamps: []*hydrapb.SwampRequest{{IslandID: 1, SwampName: sw, CreateIfNotExist: true, Overwrite: true, KeyValues: []*hydrapb.KeyValuePair{{Key: "z", Int32Val: p(int32(9))}}}}})
		var res c05result
		for _, o := range hists[i] {
			vrt.Advance(1e9)
			ops[o].run(rg, sw)
		}
		res.before = c05snapshot(rg, sw)
		res.closed = rg.closeSwamp(sw)
		res.after = c05snapshot(rg, sw)
		rg.destroy(sw)
		results[i] = &res
	})
	if r.OutOfTime() {
		r.NotExhaustive("time budget reached in the life-cycle histories")
	}
	for i, h := range hists {
		var hn []string
		for _, x := range h {
			hn = append(hn, ops[x].name)
		}
		cs := map[string]any{"configuration": "dsk", "history": hn}
		if x, ok := bad[i]; ok {
			r.Eval(1)
			r.Fail("reload", "lifecycle:request-never-returns", fmt.Sprintf("history %v: deadlock=%v panics=%v", hn, x.Deadlock, x.Panics), cs)
			continue
		}
		res := results[i]
		if res == nil {
			continue
		}
		r.Eval(1)
		r.Nontrivial("life" + fmt.Sprint(h))
		if res.before != res.after {
			for _, k := range c05classify(res.before, res.after) {
				if strings.Contains(res.before, "a:absent") && !strings.Contains(res.after, "a:absent") {
					k = "deleted-record-comes-back"
				}
				r.Fail("reload", "lifecycle:"+k, fmt.Sprintf("[dsk, record z=9 present] history %v: before close {%s} after reload {%s}", hn, res.before, res.after), cs)
			}
		}
	}
}
