package props

import (
	"fmt"
	"io"
	"log/slog"
	"sort"
	"strings"

	"github.com/hydraide/hydraide/app/core/hydra/swamp/beacon"
	"github.com/hydraide/hydraide/app/core/hydra/swamp/chronicler"
	"github.com/hydraide/hydraide/app/core/hydra/swamp/treasure"
	"github.com/hydraide/hydraide/app/core/hydra/swamp/treasure/guard"
	"github.com/hydraide/hydraide/app/vshim/vos"
)

const swampPath = "/data/1/abc/swamp"
const hydPath = swampPath + ".hyd"

func quietLogs() { slog.SetDefault(slog.New(slog.NewTextHandler(io.Discard, nil))) }

func mkTreasure(key, val string, persisted, deleted bool) treasure.Treasure {
	t := treasure.New(nil)
	g := t.StartTreasureGuard(true, guard.BodyAuthID)
	t.BodySetKey(g, key)
	t.SetContentString(g, val)
	if persisted {
		t.BodySetFileName(g, hydPath)
	}
	if deleted {
		t.BodySetForDeletion(g, "u", false)
	}
	t.ReleaseTreasureGuard(g)
	return t
}

// loadSwamp loads the swamp file of the current vos image through a fresh V2 chronicler into a fresh beacon.
func loadSwamp() map[string]string {
	c := chronicler.NewV2WithName(swampPath, 1, "s/r/w")
	b := beacon.New()
	c.Load(b)
	out := map[string]string{}
	for k, t := range b.GetAll() {
		v, _ := t.GetContentString()
		out[k] = v
	}
	return out
}

func fmtState(m map[string]string) string {
	ks := make([]string, 0, len(m))
	for k, v := range m {
		if len(v) > 8 {
			v = fmt.Sprintf("%s..%d", v[:4], len(v))
		}
		ks = append(ks, k+"="+v)
	}
	sort.Strings(ks)
	return strings.Join(ks, ",")
}

// storStep is one step of a chronicler-level write history.
type storStep struct {
	name  string
	op    byte // 'W' write batch, 'S' sync, 'C' close
	batch [][3]string // key, value, "d" for delete
}

var bigVal20k = strings.Repeat("x", 20*1024)

var storAlphabet = []storStep{
	{"Wa1", 'W', [][3]string{{"a", "1", ""}}},
	{"Wa2", 'W', [][3]string{{"a", "2", ""}}},
	{"Wb1", 'W', [][3]string{{"b", "1", ""}}},
	{"S", 'S', nil},
	{"C", 'C', nil},
	{"Da", 'W', [][3]string{{"a", "", "d"}}},
	{"Wab3", 'W', [][3]string{{"a", "3", ""}, {"b", "3", ""}}},
	{"WL", 'W', [][3]string{{"L", bigVal20k, ""}}},
}

type storRun struct {
	log     []vos.Op
	hiAt    []int    // per log op: entries handed to the writer up to and including the step that issued it
	states  []string // states[p] = model after p entries
	models  []map[string]string
	final   *vos.State
}

// runStorHistory executes the history on a fresh mem FS through the V2 chronicler.
func runStorHistory(steps []storStep) *storRun {
	vos.UseMem()
	c := chronicler.NewV2WithName(swampPath, 1, "s/r/w")
	c.CreateDirectoryIfNotExists()
	vos.ClearLog()
	model := map[string]string{}
	cp := func() map[string]string {
		m := map[string]string{}
		for k, v := range model {
			m[k] = v
		}
		return m
	}
	r := &storRun{states: []string{""}, models: []map[string]string{cp()}}
	entries := 0
	seen := map[string]bool{}
	for _, s := range steps {
		switch s.op {
		case 'W':
			var ts []treasure.Treasure
			for _, kv := range s.batch {
				ts = append(ts, mkTreasure(kv[0], kv[1], seen[kv[0]], kv[2] == "d"))
			}
			c.Write(ts)
			for _, kv := range s.batch {
				if kv[2] == "d" {
					delete(model, kv[0])
					seen[kv[0]] = false
				} else {
					model[kv[0]] = kv[1]
					seen[kv[0]] = true
				}
				entries++
				r.states = append(r.states, fmtState(model))
				r.models = append(r.models, cp())
			}
		case 'S':
			if cs, ok := c.(interface{ Sync() error }); ok {
				cs.Sync()
			}
		case 'C':
			c.Close()
		}
		for len(r.hiAt) < vos.LogLen() {
			r.hiAt = append(r.hiAt, entries)
		}
	}
	r.log = append([]vos.Op(nil), vos.Log()...)
	r.final = vos.FS()
	return r
}

// baseState is the file-system image before the history (the swamp's parent directory exists).
func baseState() *vos.State {
	s := vos.NewState()
	s.Apply(vos.Op{Kind: vos.OpMkdir, Path: "/data/1/abc"}, -1)
	return s
}
