package props

import (
	"encoding/binary"
	"fmt"
	"hash/crc32"
	"os"
	"path/filepath"
	"runtime/metrics"
	"strings"
	"syscall"
	"testing"

	v2 "github.com/hydraide/hydraide/app/core/hydra/swamp/chronicler/v2"
	"github.com/hydraide/hydraide/app/vshim/vos"
	"github.com/hydraide/hydraide/app/vshim/vrt"
	"verifharness/kit"
)

type c04seed struct {
	name     string
	data     []byte
	versions map[string]map[string]bool // key -> set of values ever written
	blocks   []int                      // offsets of block headers
}

func c04seeds() []c04seed {
	var out []c04seed
	vrt.ForceVirtualClock = true // header timestamps are part of the mutated bytes: keep them identical in every run
	defer func() { vrt.ForceVirtualClock = false }()
	mk := func(name string, bs int, swamp string, entries []v2.Entry, flushEvery int) {
		vos.UseMem()
		vos.MkdirAll("/d", 0755)
		w, err := v2.NewFileWriterWithName("/d/s.hyd", bs, swamp)
		if err != nil {
			panic(err)
		}
		vers := map[string]map[string]bool{}
		for i, e := range entries {
			if err := w.WriteEntry(e); err != nil {
				panic(err)
			}
			if e.Operation != v2.OpDelete {
				if vers[e.Key] == nil {
					vers[e.Key] = map[string]bool{}
				}
				vers[e.Key][string(e.Data)] = true
			}
			if flushEvery > 0 && (i+1)%flushEvery == 0 {
				w.Flush()
			}
		}
		w.Close()
		b, _ := vos.FS().FileBytes("/d/s.hyd")
		out = append(out, c04seed{name: name, data: append([]byte(nil), b...), versions: vers})
	}
	es := []v2.Entry{
		{Operation: v2.OpInsert, Key: "a", Data: []byte("1")},
		{Operation: v2.OpInsert, Key: "b", Data: []byte("22")},
		{Operation: v2.OpUpdate, Key: "a", Data: []byte("333")},
		{Operation: v2.OpDelete, Key: "b"},
		{Operation: v2.OpInsert, Key: "c", Data: []byte("cccccccccccccccccccccccccccccccccccccccc")},
	}
	mk("v3-named-3blocks", 4096, "s/r/w", es, 2)
	mk("v3-noname-1block", 4096, "", es[:3], 0)
	mk("v3-named-0blocks", 4096, "s/r/w", nil, 0)
	// hand-built V2 file: name stored as an OpMetadata entry in the first block
	h := v2.NewFileHeader()
	h.Version = v2.Version2
	h.NameLength = 0
	file := h.Serialize()
	vers := map[string]map[string]bool{"a": {"1": true, "333": true}, "b": {"22": true}}
	for _, blk := range [][]v2.Entry{{{Operation: v2.OpMetadata, Key: v2.MetadataEntryKey, Data: []byte("s/r/w")}, es[0], es[1]}, {es[2]}} {
		bh, comp, _ := v2.CompressEntries(blk)
		file = append(file, bh.Serialize()...)
		file = append(file, comp...)
	}
	out = append(out, c04seed{name: "v2-metadata-2blocks", data: file, versions: vers})
	// block offsets
	for i := range out {
		s := &out[i]
		hd := &v2.FileHeader{}
		hd.Deserialize(s.data[:64])
		pos := int(hd.DataStartOffset())
		for pos+16 <= len(s.data) {
			s.blocks = append(s.blocks, pos)
			pos += 16 + int(binary.LittleEndian.Uint32(s.data[pos:pos+4]))
		}
	}
	return out
}

var c04sample = []metrics.Sample{{Name: "/gc/heap/allocs:bytes"}}

func allocBytes() uint64 {
	metrics.Read(c04sample)
	return c04sample[0].Value.Uint64()
}

// C04 — corrupt storage files are detected, never misread, never crash the server.
var c04journal *os.File

const c04limitGiB = 8

func TestC04(t *testing.T) {
	quietLogs()
	r := kit.Start("C04", "exploration")
	defer r.Finish()
	r.Rule = "seed files (V3 named with 3 blocks, V3 unnamed 1 block, V3 header only, hand-built V2 with OpMetadata) x COMPLETE mutation operators: truncation at every length; every single-byte substitution at every offset (quick: 7 boundary values, thorough: all 255); every 16/32/64-bit header and block-header field forced to {0,1,max-1,max,filesize-1,filesize,filesize+1,2^31,2^32-1} with and without the block CRC recomputed; a forged snappy length prefix with recomputed CRC; all byte strings of length <=3 over {00,01,FF,'H'} as whole files and as tails after a valid header; each through NewFileReader+LoadIndex, ReadAllBlocks, ScanBlockHeaders, ReadSwampName, CalculateFragmentation. Oracle: no panic; read calls <= 8*(size/16+16) (termination by step budget, not a stopwatch); bytes allocated <= 4 MiB + 64*file size (4 MiB covers the fixed worst case of a 16-bit entry count, 65535 x 48 B); on success every returned key->value was written to the seed (not demanded for payload mutants whose CRC was recomputed: those are valid files with other content). Non-trivial = a mutant that differs from its seed (distinct by seed+operator+position+value)"
	r.Assumptions = []string{"only single-site mutations (one byte, one field, one truncation) of four seed shapes plus the short-string files are enumerated", "allocation is measured with runtime/metrics in a single-threaded worker"}
	seeds := c04seeds()
	subs := func(b byte) []byte {
		if !r.Quick() {
			out := make([]byte, 0, 255)
			for v := 0; v < 256; v++ {
				if byte(v) != b {
					out = append(out, byte(v))
				}
			}
			return out
		}
		var out []byte
		for _, c := range []byte{0x00, 0x01, 0x7F, 0x80, 0xFF, b ^ 1, b ^ 0x80} {
			dup := c == b
			for _, o := range out {
				dup = dup || o == c
			}
			if !dup {
				out = append(out, c)
			}
		}
		return out
	}
	// A forged count can make the code ask for tens of gigabytes in one call, which cannot be measured after the fact:
	// each worker runs under an address-space limit and journals the call it is about to make; a worker that dies of
	// memory exhaustion is reported as a failure of the journalled call.
	jdir := os.Getenv("VERIF_C04_JOURNAL")
	if ok := r.IsWorker(); !ok {
		jdir, _ = os.MkdirTemp("/dev/shm", "verif-c04-journal-")
		os.Setenv("VERIF_C04_JOURNAL", jdir)
		defer os.RemoveAll(jdir)
		r.WorkerCrashed = func(w int, out string) bool {
			if !strings.Contains(out, "out of memory") && !strings.Contains(out, "cannot allocate memory") {
				return false
			}
			b, _ := os.ReadFile(filepath.Join(jdir, fmt.Sprintf("w%d", w)))
			f := strings.Split(strings.TrimRight(string(b), " \n"), "|")
			if len(f) != 3 {
				return false
			}
			r.Fail("mutant", fmt.Sprintf("%s:%s:process-dies-out-of-memory", f[0], f[1]), fmt.Sprintf("%s on %s: the process died of memory exhaustion under an address-space limit of %d GiB (the file is smaller than 1 KiB)", f[0], f[2], c04limitGiB), map[string]any{"call": f[0], "mutant": f[2], "worker_output_tail": out[max(0, len(out)-1500):]})
			return true
		}
	} else if jdir != "" {
		sh, _ := r.Shard()
		c04journal, _ = os.Create(filepath.Join(jdir, fmt.Sprintf("w%d", sh)))
		lim := syscall.Rlimit{Cur: c04limitGiB << 30, Max: c04limitGiB << 30}
		if err := syscall.Setrlimit(syscall.RLIMIT_AS, &lim); err != nil {
			t.Fatalf("setrlimit: %v", err)
		}
	}
	r.Parallel(16, "TestC04", func() {
		item := 0
		mine := func() bool { item++; return r.Mine(item) }
		for si := range seeds {
			s := &seeds[si]
			for n := 0; n < len(s.data); n++ {
				if mine() {
					c04eval(r, s, "truncate", n, 0, s.data[:n])
				}
			}
			for p := 0; p < len(s.data); p++ {
				if !mine() {
					continue
				}
				for _, v := range subs(s.data[p]) {
					m := append([]byte(nil), s.data...)
					m[p] = v
					c04eval(r, s, "substitute", p, int(v), m)
				}
			}
			// forced fields
			fs := uint64(len(s.data))
			vals := []uint64{0, 1, 0xFFFFFFFE, 0xFFFFFFFF, fs - 1, fs, fs + 1, 1 << 31, 0xFFFF, 0xFFFE, 0xFFFFFFFFFFFFFFFF}
			type fld struct {
				name string
				off  int
				size int
			}
			flds := []fld{{"hdr.version", 4, 2}, {"hdr.flags", 6, 2}, {"hdr.blocksize", 24, 4}, {"hdr.entrycount", 28, 8}, {"hdr.blockcount", 36, 8}, {"hdr.namelength", 44, 2}}
			for bi, bo := range s.blocks {
				flds = append(flds, fld{fmt.Sprintf("blk%d.compressedsize", bi), bo, 4}, fld{fmt.Sprintf("blk%d.uncompressedsize", bi), bo + 4, 4},
					fld{fmt.Sprintf("blk%d.entrycount", bi), bo + 8, 2}, fld{fmt.Sprintf("blk%d.checksum", bi), bo + 10, 4}, fld{fmt.Sprintf("blk%d.flags", bi), bo + 14, 2})
			}
			for _, f := range flds {
				for _, v := range vals {
					if !mine() {
						continue
					}
					m := append([]byte(nil), s.data...)
					switch f.size {
					case 2:
						binary.LittleEndian.PutUint16(m[f.off:], uint16(v))
					case 4:
						binary.LittleEndian.PutUint32(m[f.off:], uint32(v))
					case 8:
						binary.LittleEndian.PutUint64(m[f.off:], v)
					}
					c04eval(r, s, "force:"+f.name, f.off, int(v), m)
				}
			}
			// forged payloads with a recomputed CRC: every payload byte substituted (boundary values), snappy length prefix forged
			for bi, bo := range s.blocks {
				cs := int(binary.LittleEndian.Uint32(s.data[bo : bo+4]))
				if bo+16+cs > len(s.data) {
					continue
				}
				for p := 0; p < cs; p++ {
					if !mine() {
						continue
					}
					for _, v := range []byte{0x00, 0xFF, s.data[bo+16+p] ^ 1, s.data[bo+16+p] ^ 0x80} {
						if v == s.data[bo+16+p] {
							continue
						}
						m := append([]byte(nil), s.data...)
						m[bo+16+p] = v
						binary.LittleEndian.PutUint32(m[bo+10:], crc32.ChecksumIEEE(m[bo+16:bo+16+cs]))
						c04eval(r, s, fmt.Sprintf("crc-forged:blk%d.payload", bi), p, int(v), m)
					}
				}
				for _, claim := range []uint64{1 << 20, 1 << 26} {
					if !mine() {
						continue
					}
					// replace the snappy varint length prefix by a forged one and fix the sizes and the CRC
					old := s.data[bo+16 : bo+16+cs]
					_, n := binary.Uvarint(old)
					pre := binary.AppendUvarint(nil, claim)
					pay := append(append([]byte(nil), pre...), old[n:]...)
					m := append([]byte(nil), s.data[:bo]...)
					hb := append([]byte(nil), s.data[bo:bo+16]...)
					binary.LittleEndian.PutUint32(hb[0:], uint32(len(pay)))
					binary.LittleEndian.PutUint32(hb[4:], uint32(claim))
					binary.LittleEndian.PutUint32(hb[10:], crc32.ChecksumIEEE(pay))
					m = append(append(m, hb...), pay...)
					m = append(m, s.data[bo+16+cs:]...)
					c04eval(r, s, fmt.Sprintf("crc-forged:blk%d.snappy-length", bi), 0, int(claim), m)
				}
			}
		}
		// all short byte strings as whole files and as tails after a valid V3 header (no name)
		alpha := []byte{0x00, 0x01, 0xFF, 'H'}
		hdr := v2.NewFileHeader().Serialize()
		empty := &c04seed{name: "short-strings", versions: map[string]map[string]bool{}}
		forEachSeq(len(alpha), 3, func(idx int, seq []int) bool {
			if !mine() {
				return true
			}
			b := make([]byte, len(seq))
			for i, x := range seq {
				b[i] = alpha[x]
			}
			c04eval(r, empty, "whole-file", idx, 0, b)
			c04eval(r, empty, "tail-after-header", idx, 0, append(append([]byte(nil), hdr...), b...))
			return true
		})
		c04eval(r, empty, "whole-file", -1, 0, nil)
	})
}

func c04eval(r *kit.Run, s *c04seed, kind string, pos, val int, file []byte) {
	r.Eval(1)
	if string(file) != string(s.data) {
		r.Nontrivial(fmt.Sprintf("%s/%s/%d/%d", s.name, kind, pos, val))
	}
	vos.UseMem()
	vos.MkdirAll("/d", 0755)
	vos.FS().PutFile("/d/m.hyd", file)
	desc := map[string]any{"seed": s.name, "mutation": kind, "pos": pos, "val": val, "file_len": len(file)}
	if len(file) <= 96 {
		desc["file_hex"] = fmt.Sprintf("%x", file)
	}
	opClass := kind
	if i := strings.Index(opClass, ":blk"); i >= 0 { // block ordinal is not part of a failure's identity
		j := strings.Index(opClass[i:], ".")
		opClass = opClass[:i] + ":blk" + opClass[i+j:]
	}
	forgedPayload := strings.HasPrefix(kind, "crc-forged:") && strings.HasSuffix(kind, ".payload")
	budgetReads := int64(8 * (len(file)/16 + 16))
	budgetAlloc := uint64(4<<20 + 64*len(file))
	run := func(api string, f func() (map[string][]byte, error)) {
		if c04journal != nil {
			rec := fmt.Sprintf("%s|%s|%s of %s at %d val %d", api, opClass, kind, s.name, pos, val)
			c04journal.WriteAt([]byte(fmt.Sprintf("%-200s\n", rec)), 0)
		}
		vos.Reads = 0
		a0 := allocBytes()
		var idx map[string][]byte
		var err error
		var pan any
		func() {
			defer func() { pan = recover() }()
			idx, err = f()
		}()
		alloc := allocBytes() - a0
		if pan != nil {
			r.Outcome(api + ":panic")
			r.Fail("mutant", fmt.Sprintf("%s:%s:panic", api, opClass), fmt.Sprintf("%s panics on %s of %s at %d (val %d): %v", api, kind, s.name, pos, val, pan), desc)
			return
		}
		if vos.Reads > budgetReads {
			r.Fail("mutant", fmt.Sprintf("%s:%s:read-budget-exceeded", api, opClass), fmt.Sprintf("%s made %d read calls on a %d-byte file", api, vos.Reads, len(file)), desc)
		}
		if alloc > budgetAlloc {
			r.Outcome(api + ":overalloc")
			r.Fail("mutant", fmt.Sprintf("%s:%s:allocation-out-of-proportion", api, opClass), fmt.Sprintf("%s allocated %d bytes for a %d-byte file (%s at %d val %d)", api, alloc, len(file), kind, pos, val), desc)
		}
		if err != nil {
			r.Outcome(api + ":error")
			return
		}
		r.Outcome(api + ":ok")
		if forgedPayload {
			return
		}
		for k, v := range idx {
			if !s.versions[k][string(v)] {
				r.Fail("mutant", fmt.Sprintf("%s:%s:record-never-written", api, opClass), fmt.Sprintf("%s returned %q=%q which was never written to seed %s (%s at %d val %d)", api, short(k), short(string(v)), s.name, kind, pos, val), desc)
				return
			}
		}
	}
	run("LoadIndex", func() (map[string][]byte, error) {
		rd, err := v2.NewFileReader("/d/m.hyd")
		if err != nil {
			return nil, err
		}
		defer rd.Close()
		idx, _, err := rd.LoadIndex()
		return idx, err
	})
	run("ReadAllBlocks", func() (map[string][]byte, error) {
		rd, err := v2.NewFileReader("/d/m.hyd")
		if err != nil {
			return nil, err
		}
		defer rd.Close()
		bl, err := rd.ReadAllBlocks()
		if err != nil {
			return nil, err
		}
		idx := map[string][]byte{}
		for _, b := range bl {
			for _, e := range b.Entries {
				if e.Operation == v2.OpInsert || e.Operation == v2.OpUpdate {
					idx[e.Key+"#"+string(e.Data)] = nil
					if !s.versions[e.Key][string(e.Data)] {
						return map[string][]byte{e.Key: e.Data}, nil
					}
				}
			}
		}
		return nil, nil
	})
	run("ScanBlockHeaders", func() (map[string][]byte, error) {
		rd, err := v2.NewFileReader("/d/m.hyd")
		if err != nil {
			return nil, err
		}
		defer rd.Close()
		_, err = rd.ScanBlockHeaders()
		return nil, err
	})
	run("ReadSwampName", func() (map[string][]byte, error) {
		_, err := v2.ReadSwampName("/d/m.hyd")
		return nil, err
	})
	run("CalculateFragmentation", func() (map[string][]byte, error) {
		rd, err := v2.NewFileReader("/d/m.hyd")
		if err != nil {
			return nil, err
		}
		defer rd.Close()
		_, _, _, err = rd.CalculateFragmentation()
		return nil, err
	})
	if s.name == "v3-named-3blocks" && kind == "substitute" && pos == 70 && val == 0xFF {
		r.Sample(desc)
	}
}
