package props

import (
	"context"
	"fmt"
	"sort"
	"strings"
	"testing"

	"github.com/hydraide/hydraide/app/vshim/vrt"
	hydrapb "github.com/hydraide/hydraide/sdk/go/hydraidego/v3/hydraidepbgo"
	"google.golang.org/grpc/metadata"
	"verifharness/kit"
)

// C19 — subscribers get each committed change once, in order, with the correct time.
// Sequential part: every history up to a length over a write/read alphabet, with the subscription window
// [subscribe, unsubscribe) placed at every pair of positions; the recorded stream must equal the model's change log.
// Concurrent part: two writers and one subscriber under the controlled scheduler; the recording stream yields inside
// SendMsg and counts overlapping calls (gRPC forbids concurrent SendMsg on one stream).

type evStream struct {
	ctx      context.Context
	msgs     []*hydrapb.SubscribeToEventsResponse
	inSend   int
	overlaps int
	yield    bool
}

func (f *evStream) Send(m *hydrapb.SubscribeToEventsResponse) error { return f.SendMsg(m) }
func (f *evStream) SetHeader(metadata.MD) error                     { return nil }
func (f *evStream) SendHeader(metadata.MD) error                    { return nil }
func (f *evStream) SetTrailer(metadata.MD)                          {}
func (f *evStream) Context() context.Context                        { return f.ctx }
func (f *evStream) RecvMsg(m any) error                             { return nil }
func (f *evStream) SendMsg(m any) error {
	f.inSend++
	if f.inSend > 1 {
		f.overlaps++
	}
	if f.yield {
		vrt.Yield("stream.SendMsg")
	}
	if x, ok := m.(*hydrapb.SubscribeToEventsResponse); ok {
		f.msgs = append(f.msgs, x)
	}
	f.inSend--
	return nil
}

func evStr(e *hydrapb.SubscribeToEventsResponse) string {
	t := e.Treasure
	if e.Status == hydrapb.Status_DELETED {
		t = e.DeletedTreasure
	}
	k, v := "?", "?"
	if t != nil {
		k, v = t.Key, valStr(t)
	}
	return fmt.Sprintf("%s %s=%s @%s", e.Status, k, v, tsStr(e.EventTime))
}

type c19op struct {
	name  string
	run   func(r *rigT, swamp string)
	model func(m map[string]string, now int64) []string // returns expected events
}

func c19ops() []c19op {
	var ops []c19op
	ev := func(st, k, v string, now int64) string { return fmt.Sprintf("%s %s=%s @%s", st, k, v, nsStr(now)) }
	for _, key := range []string{"a", "b"} {
		key := key
		for _, val := range []int32{1, 2} {
			val := val
			ops = append(ops, c19op{fmt.Sprintf("Set(%s,%d)", key, val),
				func(r *rigT, s string) {
					r.gw.Set(bg, &hydrapb.SetRequest{Swamps: []*hydrapb.SwampRequest{{IslandID: 1, SwampName: s, CreateIfNotExist: true, Overwrite: true, KeyValues: []*hydrapb.KeyValuePair{{Key: key, Int32Val: p(val)}}}}})
				},
				func(m map[string]string, now int64) []string {
					nv := fmt.Sprintf("i32:%d", val)
					old, ok := m[key]
					m[key] = nv
					if !ok {
						return []string{ev("NEW", key, nv, now)}
					}
					if old != nv {
						return []string{ev("UPDATED", key, nv, now)}
					}
					return nil
				}})
		}
		ops = append(ops,
			c19op{"Inc(" + key + ",+1)",
				func(r *rigT, s string) {
					r.gw.IncrementInt32(bg, &hydrapb.IncrementInt32Request{IslandID: 1, SwampName: s, Key: key, IncrementBy: 1})
				},
				func(m map[string]string, now int64) []string {
					old, ok := m[key]
					n := 0
					if ok {
						fmt.Sscanf(old, "i32:%d", &n)
					}
					nv := fmt.Sprintf("i32:%d", n+1)
					m[key] = nv
					if !ok {
						return []string{ev("NEW", key, nv, now)}
					}
					return []string{ev("UPDATED", key, nv, now)}
				}},
			c19op{"Delete(" + key + ")",
				func(r *rigT, s string) {
					r.gw.Delete(bg, &hydrapb.DeleteRequest{Swamps: []*hydrapb.DeleteRequest_SwampKeys{{IslandID: 1, SwampName: s, Keys: []string{key}}}})
				},
				func(m map[string]string, now int64) []string {
					old, ok := m[key]
					if !ok {
						return nil
					}
					delete(m, key)
					return []string{ev("DELETED", key, old, now)}
				}},
			c19op{"Get(" + key + ")",
				func(r *rigT, s string) {
					r.gw.Get(bg, &hydrapb.GetRequest{Swamps: []*hydrapb.GetSwamp{{IslandID: 1, SwampName: s, Keys: []string{key}}}})
				},
				func(m map[string]string, now int64) []string { return nil }})
	}
	ops = append(ops,
		c19op{"ShiftByKeys([a b])",
			func(r *rigT, s string) {
				r.gw.ShiftByKeys(bg, &hydrapb.ShiftByKeysRequest{IslandID: 1, SwampName: s, Keys: []string{"a", "b"}})
			},
			func(m map[string]string, now int64) []string {
				var out []string
				for _, k := range []string{"a", "b"} {
					if old, ok := m[k]; ok {
						delete(m, k)
						out = append(out, ev("DELETED", k, old, now))
					}
				}
				return out
			}},
		c19op{"Count",
			func(r *rigT, s string) {
				r.gw.Count(bg, &hydrapb.CountRequest{Swamps: []*hydrapb.CountRequest_SwampIdentifier{{IslandID: 1, SwampName: s}}})
			},
			func(m map[string]string, now int64) []string { return nil }})
	return ops
}

// c19run executes the history with the subscription window [from, to) (positions between operations).
func c19run(rg *rigT, ops []c19op, hist []int, from, to int, swamp string) (got, want []string, unfinished bool) {
	m := map[string]string{}
	var st *evStream
	var cancel context.CancelFunc
	var th *vrt.Thread
	for i := 0; i <= len(hist); i++ {
		if i == from {
			ctx, c := context.WithCancel(bg)
			cancel = c
			st = &evStream{ctx: ctx}
			s := st
			th = vrt.Go("subscriber", func() {
				rg.gw.SubscribeToEvents(&hydrapb.SubscribeToEventsRequest{IslandID: 1, SwampName: swamp}, s)
			})
			vrt.Drain() // the subscriber registers and parks on its stream context
		}
		if i == to && cancel != nil {
			cancel()
			vrt.Drain() // the subscriber unsubscribes and returns
			unfinished = !th.Done()
			cancel = nil
		}
		if i == len(hist) {
			break
		}
		vrt.Advance(1e9)
		exp := ops[hist[i]].model(m, vrt.NowNS())
		ops[hist[i]].run(rg, swamp)
		if i >= from && i < to {
			want = append(want, exp...)
		}
	}
	if cancel != nil {
		cancel()
		vrt.Drain()
	}
	for _, e := range st.msgs {
		got = append(got, evStr(e))
	}
	return
}

func c19class(got, want []string) string {
	if len(got) < len(want) {
		return "event-missing"
	}
	if len(got) > len(want) {
		return "spurious-event"
	}
	for i := range got {
		if got[i] != want[i] {
			g, w := strings.Fields(got[i]), strings.Fields(want[i])
			switch {
			case g[0] != w[0]:
				return "wrong-status"
			case g[1] != w[1]:
				return "wrong-key-or-value"
			default:
				return "wrong-event-time"
			}
		}
	}
	return ""
}

func TestC19(t *testing.T) {
	rigSetup()
	quietLogs()
	r := kit.Start("C19", "exploration")
	defer r.Finish()
	ops := c19ops()
	maxLen := 3
	if !r.Quick() {
		maxLen = 4
	}
	var names []string
	for _, o := range ops {
		names = append(names, o.name)
	}
	r.Extra["alphabet"] = names
	r.Rule = fmt.Sprintf("sequential part: every history of length <= %d over %v on an in-memory swamp and on a persistent one, with the subscription window [subscribe, unsubscribe) placed at every pair of positions 0 <= i < j <= len (the swamp may not exist yet when the client subscribes, and may be emptied and re-created inside the window); the real SubscribeToEvents handler runs as a second managed thread with a recording stream; oracle: the recorded events equal the model's change log of the window - one NEW/UPDATED/DELETED per record created, changed or removed, none for a Set of the same value and for reads, in commit order, carrying the committed value, EventTime = the virtual clock at the change (exact). Concurrent part: two writers (Set on different keys) and a subscriber under the controlled scheduler, every schedule with at most 1 (quick) / 2 (thorough) preemptions; the stream yields inside SendMsg and counts overlapping calls; per-key order and payload are checked. Same-key part: two writers on ONE existing key ({Set||Set, Set;Set||Set, Set||Inc}) on an in-memory and on an immediate-write persistent swamp, same bounds; the events of the key together with the value read afterwards must equal the change log and final value of one sequential order of the operations. Non-trivial = windows containing at least one change", maxLen, names)
	r.Assumptions = []string{"the stream is an in-process recorder; gRPC's rule that SendMsg must not be called concurrently on one stream is checked by counting overlapping calls", "OldTreasure of UPDATED events is not compared (the property speaks about the committed values)"}
	type item struct {
		hist     []int
		from, to int
		conf     string
	}
	var items []item
	forEachSeq(len(ops), maxLen, func(idx int, seq []int) bool {
		for from := 0; from <= len(seq); from++ {
			for to := from + 1; to <= len(seq)+1; to++ {
				for _, conf := range []string{"mem", "dsk"} {
					if conf == "dsk" && len(seq) == maxLen && maxLen > 2 {
						continue // the persistent configuration is explored one step shallower
					}
					items = append(items, item{append([]int(nil), seq...), from, to, conf})
				}
			}
		}
		return true
	})
	r.Extra["sequential_items"] = len(items)
	r.Parallel(16, "TestC19", func() {
		type res struct {
			got, want  []string
			unfinished bool
		}
		results := make([]*res, len(items))
		want := func(i int) bool { return r.Mine(i) && !r.OutOfTime() }
		bad := rigBatch(len(items), want, func(rg *rigT, i int) {
			it := items[i]
			swamp := fmt.Sprintf("%s/r/h%d", it.conf, i)
			to := it.to
			o := &res{}
			o.got, o.want, o.unfinished = c19run(rg, ops, it.hist, it.from, to, swamp)
			results[i] = o
			rg.destroy(swamp)
		})
		if r.OutOfTime() {
			r.NotExhaustive("time budget reached in the sequential part")
		}
		for i, it := range items {
			var hn []string
			for _, x := range it.hist {
				hn = append(hn, ops[x].name)
			}
			cs := map[string]any{"config": it.conf, "history": hn, "subscribe_before_op": it.from, "unsubscribe_before_op": it.to}
			if x, ok := bad[i]; ok {
				r.Eval(1)
				r.Fail("events", "request-never-returns-or-panics", fmt.Sprintf("[%s] history %v window [%d,%d): deadlock=%v blocked=%v panics=%v", it.conf, hn, it.from, it.to, x.Deadlock, x.Blocked, x.Panics), cs)
				continue
			}
			o := results[i]
			if o == nil {
				continue
			}
			r.Eval(1)
			if len(o.want) > 0 {
				r.Nontrivial(fmt.Sprint(it))
			}
			r.Outcome(fmt.Sprint(len(o.want)))
			if o.unfinished {
				r.Fail("events", "subscriber-does-not-return-after-cancel", fmt.Sprintf("[%s] history %v window [%d,%d)", it.conf, hn, it.from, it.to), cs)
			}
			if d := c19class(o.got, o.want); d != "" {
				cs["events"], cs["expected"] = o.got, o.want
				r.Fail("events", d, fmt.Sprintf("[%s] history %v, subscribed before op %d, unsubscribed before op %d: stream %v, change log %v", it.conf, hn, it.from, it.to, o.got, o.want), cs)
			}
			if i == 500 {
				r.Sample(map[string]any{"config": it.conf, "history": hn, "window": []int{it.from, it.to}, "events": o.got})
			}
		}
		c19concurrent(r)
		c19sameKey(r)
	})
}

// c19concurrent: two writers on different keys, one subscriber; all schedules up to the preemption bound.
func c19concurrent(r *kit.Run) {
	bound := 1
	if !r.Quick() {
		bound = 2
	}
	progs := [][2][]string{
		{{"Set(a,1)"}, {"Set(b,1)"}},
		{{"Set(a,1)", "Set(a,2)"}, {"Set(b,1)"}},
		{{"Set(a,1)", "Delete(a)"}, {"Set(b,1)", "Set(b,2)"}},
	}
	ops := c19ops()
	byName := map[string]c19op{}
	for _, o := range ops {
		byName[o.name] = o
	}
	for pi, pr := range progs {
		pr := pr
		var st *evStream
		var unfinished bool
		body := func() {
			rg := newRig(true)
			swamp := "mem/r/conc"
			// a record that stays: the swamp is never emptied (auto-destroy against writers is C16's subject)
			rg.gw.Set(bg, &hydrapb.SetRequest{Swamps: []*hydrapb.SwampRequest{{IslandID: 1, SwampName: swamp, CreateIfNotExist: true, Overwrite: true, KeyValues: []*hydrapb.KeyValuePair{{Key: "z", Int32Val: p(int32(9))}}}}})
			ctx, cancel := context.WithCancel(bg)
			st = &evStream{ctx: ctx, yield: true}
			s := st
			sub := vrt.Go("subscriber", func() {
				rg.gw.SubscribeToEvents(&hydrapb.SubscribeToEventsRequest{IslandID: 1, SwampName: swamp}, s)
			})
			vrt.Drain()
			var ths []*vrt.Thread
			for wi := 0; wi < 2; wi++ {
				wi := wi
				ths = append(ths, vrt.Go(fmt.Sprintf("writer%d", wi), func() {
					for _, on := range pr[wi] {
						byName[on].run(rg, swamp)
					}
				}))
			}
			for _, th := range ths {
				vrt.Join(th)
			}
			cancel()
			vrt.Drain()
			unfinished = !sub.Done()
		}
		noPre := func(label string) bool {
			// preemption candidates: the event path and the save path (gateway, hydra fan-out, swamp save, stream)
			for _, s := range []string{"SubscribeToEvents", "eventCallbackFunction", "sendEventToHydra", "SaveFunction", "stream.SendMsg", "deleteHandler", "sendDeletedEventToClient", "Gateway.Set", "Gateway.Delete", "CreateTreasure", "guard"} {
				if strings.Contains(label, s) {
					return false
				}
			}
			return true
		}
		for _, passBound := range c19passes(bound) {
			e := &vrt.Explorer{Body: body, Stop: r.OutOfTime}
			e.Shard, e.ShardN = r.Shard()
			e.Cfg = vrt.Config{Bound: passBound, Sites: true, NoPreempt: noPre, StepCap: 200000}
			if passBound > 1 {
				e.MaxExecs = c19ThoroughExecsPerShard
			}
			e.Check = func(x *vrt.Exec) {
				r.Eval(1)
				r.Count("concurrent_executions", 1)
				cs := map[string]any{"programs": pr, "schedule": x.Choices(), "preemptions": x.Cost}
				compute := func(x *vrt.Exec) []vfail {
					var out []vfail
					if x.Deadlock {
						out = append(out, vfail{"events-concurrent", "deadlock", fmt.Sprintf("programs %v: blocked %v", pr, x.Blocked)})
						return out
					}
					for _, pn := range x.Panics {
						out = append(out, vfail{"events-concurrent", "panic", pn})
					}
					if st.overlaps > 0 {
						out = append(out, vfail{"events-concurrent", "concurrent-SendMsg-on-one-stream", fmt.Sprintf("programs %v: %d overlapping SendMsg calls on the subscriber's stream", pr, st.overlaps)})
					}
					if unfinished {
						out = append(out, vfail{"events-concurrent", "subscriber-does-not-return-after-cancel", fmt.Sprintf("programs %v", pr)})
					}
					// per-key order: the events of one key must be the writer's change log of that key
					for wi := 0; wi < 2; wi++ {
						m := map[string]string{}
						var want, got []string
						for _, on := range pr[wi] {
							for _, ev := range byName[on].model(m, 0) {
								f := strings.Fields(ev)
								want = append(want, f[0]+" "+f[1])
							}
						}
						key := pr[wi][0][4:5]
						for _, msg := range st.msgs {
							f := strings.Fields(evStr(msg))
							if strings.HasPrefix(f[1], key+"=") {
								got = append(got, f[0]+" "+f[1])
							}
						}
						if strings.Join(got, ";") != strings.Join(want, ";") {
							out = append(out, vfail{"events-concurrent", "per-key-events-differ-from-commit-order", fmt.Sprintf("programs %v: key %s stream %v, change log %v", pr, key, got, want)})
						}
					}
					return out
				}
				vrtReport(r, e.Cfg, body, x, compute, cs)
				if x.Cost > 0 {
					r.Nontrivial(fmt.Sprintf("conc%d/%v", pi, x.Choices()))
				}
			}
			e.Run()
			if e.Stats.Capped {
				r.NotExhaustive(fmt.Sprintf("concurrent programs %v bound %d capped after %d executions", pr, passBound, e.Stats.Execs))
			}
			r.SetMax("max_points_per_execution", int64(e.Stats.MaxPoints))
		}
	}
}

// c19passes: the quick tier explores bound 1 in full; the thorough tier explores bound 1 in full and then bound 2 up to
// a fixed number of executions per program and shard, so that every program gets its share of the budget (a time
// budget alone was used up by the first programs and the same-key programs were never reached).
func c19passes(bound int) []int {
	if bound > 1 {
		return []int{1, bound}
	}
	return []int{bound}
}

const c19ThoroughExecsPerShard = 6000

// c19sameKey: two writers on the SAME key (which exists before, a=9) and one subscriber, on an in-memory swamp and on
// an immediate-write persistent swamp (the save path releases the record guard inside SaveFunction there); all
// schedules up to the preemption bound. Oracle: the events of key a and the value read afterwards equal the change
// log and final value of ONE sequential order of the writers' operations (commit order, committed values).
func c19sameKey(r *kit.Run) {
	bound := 1
	if !r.Quick() {
		bound = 2
	}
	progs := [][2][]string{
		{{"Set(a,1)"}, {"Set(a,2)"}},
		{{"Set(a,1)", "Set(a,2)"}, {"Set(a,1)"}},
		{{"Set(a,1)"}, {"Inc(a,+1)"}},
	}
	if r.Quick() {
		progs = [][2][]string{progs[0], progs[2]} // the three-operation program is left to the thorough tier
	}
	ops := c19ops()
	byName := map[string]c19op{}
	for _, o := range ops {
		byName[o.name] = o
	}
	strip := func(ev string) string { f := strings.Fields(ev); return f[0] + " " + f[1] }
	for _, conf := range []string{"mem", "imm"} {
		for pi, pr := range progs {
			pr, conf := pr, conf
			// admissible (events of a, final value of a) pairs: one per interleaving of the two programs
			adm := map[string]bool{}
			var rec func(i, j int, m map[string]string, evs []string)
			rec = func(i, j int, m map[string]string, evs []string) {
				if i == len(pr[0]) && j == len(pr[1]) {
					adm[strings.Join(evs, ";")+" => "+m["a"]] = true
					return
				}
				step := func(on string, ni, nj int) {
					m2 := map[string]string{}
					for k, v := range m {
						m2[k] = v
					}
					e2 := append([]string(nil), evs...)
					for _, ev := range byName[on].model(m2, 0) {
						e2 = append(e2, strip(ev))
					}
					rec(ni, nj, m2, e2)
				}
				if i < len(pr[0]) {
					step(pr[0][i], i+1, j)
				}
				if j < len(pr[1]) {
					step(pr[1][j], i, j+1)
				}
			}
			rec(0, 0, map[string]string{"a": "i32:9", "z": "i32:9"}, nil)
			var admL []string
			for k := range adm {
				admL = append(admL, k)
			}
			sort.Strings(admL)
			var st *evStream
			var final string
			body := func() {
				rg := newRig(true)
				swamp := conf + "/r/same"
				rg.gw.Set(bg, &hydrapb.SetRequest{Swamps: []*hydrapb.SwampRequest{{IslandID: 1, SwampName: swamp, CreateIfNotExist: true, Overwrite: true, KeyValues: []*hydrapb.KeyValuePair{{Key: "z", Int32Val: p(int32(9))}, {Key: "a", Int32Val: p(int32(9))}}}}})
				ctx, cancel := context.WithCancel(bg)
				st = &evStream{ctx: ctx, yield: true}
				s := st
				vrt.Go("subscriber", func() {
					rg.gw.SubscribeToEvents(&hydrapb.SubscribeToEventsRequest{IslandID: 1, SwampName: swamp}, s)
				})
				vrt.Drain()
				var ths []*vrt.Thread
				for wi := 0; wi < 2; wi++ {
					wi := wi
					ths = append(ths, vrt.Go(fmt.Sprintf("writer%d", wi), func() {
						for _, on := range pr[wi] {
							byName[on].run(rg, swamp)
						}
					}))
				}
				for _, th := range ths {
					vrt.Join(th)
				}
				final = "?"
				if g, _ := rg.gw.Get(bg, &hydrapb.GetRequest{Swamps: []*hydrapb.GetSwamp{{IslandID: 1, SwampName: swamp, Keys: []string{"a"}}}}); g != nil && len(g.Swamps) == 1 && len(g.Swamps[0].Treasures) == 1 {
					final = valStr(g.Swamps[0].Treasures[0])
				}
				cancel()
				vrt.Drain()
			}
			noPre := func(label string) bool {
				for _, s := range []string{"SubscribeToEvents", "eventCallbackFunction", "sendEventToHydra", "SaveFunction", "stream.SendMsg", "Gateway.Set", "Gateway.IncrementInt32", "CreateTreasure", "guard", "fileWriterHandler"} {
					if strings.Contains(label, s) {
						return false
					}
				}
				return true
			}
			for _, passBound := range c19passes(bound) {
				e := &vrt.Explorer{Body: body, Stop: r.OutOfTime}
				e.Shard, e.ShardN = r.Shard()
				e.Cfg = vrt.Config{Bound: passBound, Sites: true, NoPreempt: noPre, StepCap: 200000}
				if passBound > 1 {
					e.MaxExecs = c19ThoroughExecsPerShard
				}
				e.Check = func(x *vrt.Exec) {
					r.Eval(1)
					r.Count("same_key_executions", 1)
					cs := map[string]any{"configuration": conf, "programs": pr, "schedule": x.Choices(), "preemptions": x.Cost, "admissible": admL}
					compute := func(x *vrt.Exec) []vfail {
						var out []vfail
						if x.Deadlock {
							return append(out, vfail{"events-concurrent", "deadlock", fmt.Sprintf("programs %v: blocked %v", pr, x.Blocked)})
						}
						for _, pn := range x.Panics {
							out = append(out, vfail{"events-concurrent", "panic", pn})
						}
						var got []string
						for _, msg := range st.msgs {
							if ev := strip(evStr(msg)); strings.Contains(ev, " a=") {
								got = append(got, ev)
							}
						}
						obs := strings.Join(got, ";") + " => " + final
						if !adm[obs] {
							kind := "events-differ-from-every-commit-order"
							seen := map[string]bool{}
							for _, g := range got {
								if seen[g] {
									kind = "same-committed-value-announced-twice"
								}
								seen[g] = true
							}
							out = append(out, vfail{"events-concurrent", fmt.Sprintf("same-key:%s:%s", conf, kind), fmt.Sprintf("%s swamp, programs %v on key a (a=9 before): the stream and the final value read [%s]; sequential orders give %v", conf, pr, obs, admL)})
						}
						return out
					}
					vrtReport(r, e.Cfg, body, x, compute, cs)
					if x.Cost > 0 {
						r.Nontrivial(fmt.Sprintf("same%s%d/%v", conf, pi, x.Choices()))
					}
				}
				e.Run()
				if e.Stats.Capped {
					r.NotExhaustive(fmt.Sprintf("same-key programs %v bound %d capped after %d executions", pr, passBound, e.Stats.Execs))
				}
			}
		}
	}
}
