package props

import (
	"fmt"
	"strings"
	"testing"

	"github.com/hydraide/hydraide/app/core/hydra/swamp/vigil"
	"github.com/hydraide/hydraide/app/vshim/vrt"
	"verifharness/kit"
)

// C17 — lifecycle waits always terminate.
// Part A (this file): the real vigil under the controlled scheduler. p operations are already in flight when the
// waiters start (BeginVigil done by the main thread), b further operation threads run Begin;Cease concurrently,
// w waiters call WaitForActiveVigilsClosed. Every interleaving (scheduling points before every atomic, Lock,
// Cond.Wait entry, Broadcast) is executed; the space is closed by state-key pruning.
// Part B (c17b_test.go): the swamp/hydra level (Destroy / Close / GracefulStop against in-flight requests).

type c17mon struct {
	v          vigil.Vigil
	ceaseBegun int // pre-begun operations whose CeaseVigil call has started
	pre        int
	early      []string
}

var c17m *c17mon

func c17key() string {
	if c17m == nil || c17m.v == nil {
		return ""
	}
	return fmt.Sprintf("%d|%d", vigil.VerifCount(c17m.v), c17m.ceaseBegun)
}

type c17cfg struct{ pre, bc, waiters int }

func (c c17cfg) String() string {
	return fmt.Sprintf("inflight=%d begin-cease-threads=%d waiters=%d", c.pre, c.bc, c.waiters)
}

func c17body(c c17cfg) func() {
	return func() {
		m := &c17mon{v: vigil.New(), pre: c.pre}
		c17m = m
		for i := 0; i < c.pre; i++ {
			m.v.BeginVigil()
		}
		var ths []*vrt.Thread
		for i := 0; i < c.pre; i++ {
			ths = append(ths, vrt.Go(fmt.Sprintf("op%d:Cease", i), func() {
				m.ceaseBegun++
				m.v.CeaseVigil()
			}))
		}
		for i := 0; i < c.bc; i++ {
			ths = append(ths, vrt.Go(fmt.Sprintf("bc%d:Begin;Cease", i), func() {
				m.v.BeginVigil()
				m.v.CeaseVigil()
			}))
		}
		for i := 0; i < c.waiters; i++ {
			i := i
			ths = append(ths, vrt.Go(fmt.Sprintf("waiter%d", i), func() {
				m.v.WaitForActiveVigilsClosed()
				if m.ceaseBegun < m.pre {
					m.early = append(m.early, fmt.Sprintf("waiter %d returned while %d of %d in-flight operations had not begun to cease", i, m.pre-m.ceaseBegun, m.pre))
				}
			}))
		}
		for _, th := range ths {
			vrt.Join(th)
		}
	}
}

func TestC17(t *testing.T) {
	quietLogs()
	r := kit.Start("C17", "model_checking")
	defer r.Finish()
	var cfgs []c17cfg
	maxThreads := 4
	if !r.Quick() {
		maxThreads = 5
	}
	for pre := 0; pre <= 3; pre++ {
		for bc := 0; bc <= 2; bc++ {
			for w := 1; w <= 2; w++ {
				if pre+bc == 0 || pre+bc+w > maxThreads {
					continue
				}
				cfgs = append(cfgs, c17cfg{pre, bc, w})
			}
		}
	}
	r.Rule = "part A: real vigil.New() under the controlled scheduler; p in-flight operations (Begin done, Cease pending, one thread each), b threads running Begin;Cease, w waiters in WaitForActiveVigilsClosed; every configuration with p<=3, b<=2, w<=2 and at most " + fmt.Sprint(maxThreads) + " threads; EVERY interleaving (no preemption bound), made finite by pruning on the state key (vigil counter, per-thread step count and enabledness, cond-var waiter flags). Oracle: no reachable state in which no thread is enabled while a thread is unfinished (exact deadlock detection, no timeouts); a waiter never returns while an operation that was in flight before it started has not begun to cease. Part B: swamp level (see c17b). Non-trivial = executions in which a waiter actually parked in cond.Wait"
	r.Assumptions = []string{"sequentially consistent memory (scheduling points at synchronisation operations only)", "sync.Cond modelled as enqueue+unlock / wake / relock with a scheduling point between the caller's predicate check and the enqueue"}
	r.Extra["configurations_vigil"] = len(cfgs)
	r.Parallel(16, "TestC17", func() {
		for ci, c := range cfgs {
			if !r.Mine(ci) {
				continue
			}
			body := c17body(c)
			e := &vrt.Explorer{Body: body, Stop: r.OutOfTime}
			e.Cfg = vrt.Config{Bound: -1, StateKey: c17key, TraceOn: true}
			e.Check = func(x *vrt.Exec) {
				r.Eval(1)
				parked := false
				for _, s := range x.Trace {
					if strings.HasSuffix(s, ":Cond.Wait") {
						parked = true
					}
				}
				if parked {
					r.Nontrivial(fmt.Sprintf("%v/%v", c, x.Choices()))
				}
				r.Outcome(fmt.Sprintf("dl=%v parked=%v early=%d", x.Deadlock, parked, len(c17m.early)))
				cs := map[string]any{"config": c.String(), "schedule": x.Choices(), "trace": x.Trace}
				if x.Deadlock {
					r.Fail("vigil", fmt.Sprintf("waiter-blocked-forever:vigils=%d", vigil.VerifCount(c17m.v)),
						fmt.Sprintf("%v: no thread can run; blocked: %v; vigil counter %d", c, x.Blocked, vigil.VerifCount(c17m.v)), cs)
				}
				if x.Horizon {
					r.NotExhaustive("step horizon reached in an execution")
				}
				if x.Diverged != "" {
					r.Fail("engine", "replay-diverged", x.Diverged, cs)
				}
				for _, p := range x.Panics {
					r.Fail("vigil", "panic", p, cs)
				}
				for _, s := range c17m.early {
					r.Fail("vigil", "waiter-returned-early", s, cs)
				}
			}
			e.Run()
			r.Count("executions", int64(e.Stats.Execs))
			r.Count("pruned_branches", int64(e.Stats.Pruned))
			r.Count("state_keys", int64(e.Stats.States))
			r.SetMax("max_points_per_execution", int64(e.Stats.MaxPoints))
			if e.Stats.Capped {
				r.NotExhaustive(fmt.Sprintf("configuration %v capped after %d executions", c, e.Stats.Execs))
			}
			if ci == 0 {
				x := vrt.RunOnce(&vrt.Config{Bound: -1, TraceOn: true}, nil, body)
				r.Sample(map[string]any{"config": c.String(), "schedule": x.Choices(), "trace": x.Trace})
			}
		}
		c17swamp(r)
	})
}
