package props

import (
	"fmt"
	"sort"
	"strings"
)

// forEachSeq calls f with every sequence over {0..n-1} of length 1..maxLen (lexicographic within a length,
// shorter first). idx is the running index of the sequence (used for sharding).
func forEachSeq(n, maxLen int, f func(idx int, seq []int) bool) {
	idx := 0
	for l := 1; l <= maxLen; l++ {
		seq := make([]int, l)
		for {
			if !f(idx, seq) {
				return
			}
			idx++
			k := l - 1
			for k >= 0 {
				seq[k]++
				if seq[k] < n {
					break
				}
				seq[k] = 0
				k--
			}
			if k < 0 {
				break
			}
		}
	}
}

func mapStr(m map[string][]byte) string {
	ks := make([]string, 0, len(m))
	for k := range m {
		ks = append(ks, k)
	}
	sort.Strings(ks)
	var b strings.Builder
	for _, k := range ks {
		fmt.Fprintf(&b, "%s=%s;", short(k), short(string(m[k])))
	}
	return b.String()
}

func short(s string) string {
	if len(s) > 12 {
		return fmt.Sprintf("%q..(%d)", s[:6], len(s))
	}
	return fmt.Sprintf("%q", s)
}

func equalMaps(a, b map[string][]byte) bool {
	if len(a) != len(b) {
		return false
	}
	for k, v := range a {
		w, ok := b[k]
		if !ok || string(v) != string(w) {
			return false
		}
	}
	return true
}
