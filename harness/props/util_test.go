package props

import (
	gocontext "context"
	"encoding/json"
	"fmt"
	"os"
	"log/slog"
	"sort"
	"strings"
	gosync "sync"
	gotime "time"

	"github.com/hydraide/hydraide/app/vshim/vrt"
	"verifharness/kit"
)

// forEachSeq calls f with every sequence over {0..n-1} of length 1..maxLen (lexicographic within a length,
// shorter first). idx is the running index of the sequence (used for sharding).
func forEachSeq(n, maxLen int, f func(idx int, seq []int) bool) {
	idx := 0
	for l := 1; l <= maxLen; l++ {
		seq := make([]int, l)
		for {
			if !f(idx, seq) {
				return
			}
			idx++
			k := l - 1
			for k >= 0 {
				seq[k]++
				if seq[k] < n {
					break
				}
				seq[k] = 0
				k--
			}
			if k < 0 {
				break
			}
		}
	}
}

func mapStr(m map[string][]byte) string {
	ks := make([]string, 0, len(m))
	for k := range m {
		ks = append(ks, k)
	}
	sort.Strings(ks)
	var b strings.Builder
	for _, k := range ks {
		fmt.Fprintf(&b, "%s=%s;", short(k), short(string(m[k])))
	}
	return b.String()
}

func short(s string) string {
	if len(s) > 12 {
		return fmt.Sprintf("%q..(%d)", s[:6], len(s))
	}
	return fmt.Sprintf("%q", s)
}

func equalMaps(a, b map[string][]byte) bool {
	if len(a) != len(b) {
		return false
	}
	for k, v := range a {
		w, ok := b[k]
		if !ok || string(v) != string(w) {
			return false
		}
	}
	return true
}

// logCap is a slog handler that keeps error-level records (hydraide reports recovered panics through slog).
type logCap struct {
	mu   gosync.Mutex
	recs []string
}

func (l *logCap) Enabled(_ gocontext.Context, lv slog.Level) bool { return lv >= slog.LevelError }
func (l *logCap) Handle(_ gocontext.Context, r slog.Record) error {
	var b strings.Builder
	b.WriteString(r.Message)
	r.Attrs(func(a slog.Attr) bool {
		if a.Key != "stack" && a.Key != "stack_trace" && a.Key != "stacktrace" {
			v := a.Value.String()
			if len(v) > 300 {
				v = v[:300]
			}
			fmt.Fprintf(&b, " %s=%s", a.Key, v)
		}
		return true
	})
	l.mu.Lock()
	if len(l.recs) < 50 {
		l.recs = append(l.recs, b.String())
	}
	l.mu.Unlock()
	return nil
}
func (l *logCap) WithAttrs([]slog.Attr) slog.Handler { return l }
func (l *logCap) WithGroup(string) slog.Handler      { return l }
func (l *logCap) install()                           { slog.SetDefault(slog.New(l)) }
func (l *logCap) reset()                             { l.mu.Lock(); l.recs = nil; l.mu.Unlock() }
func (l *logCap) take() []string {
	l.mu.Lock()
	defer l.mu.Unlock()
	r := l.recs
	l.recs = nil
	return r
}

// replayCase loads the "case" object of a replay file named by VERIF_REPLAY (nil if not replaying).
func replayCase() map[string]any {
	p := os.Getenv("VERIF_REPLAY")
	if p == "" {
		return nil
	}
	b, err := os.ReadFile(p)
	if err != nil {
		fmt.Fprintln(os.Stderr, "INTERNAL: cannot read replay file:", err)
		os.Exit(2)
	}
	var rep struct {
		Case map[string]any `json:"case"`
	}
	if err := json.Unmarshal(b, &rep); err != nil || rep.Case == nil {
		fmt.Fprintln(os.Stderr, "INTERNAL: replay file has no case:", err)
		os.Exit(2)
	}
	return rep.Case
}

func caseInts(v any) []int {
	var out []int
	if l, ok := v.([]any); ok {
		for _, x := range l {
			if f, ok := x.(float64); ok {
				out = append(out, int(f))
			}
		}
	}
	return out
}

func caseStrings(v any) []string {
	var out []string
	if l, ok := v.([]any); ok {
		for _, x := range l {
			out = append(out, fmt.Sprint(x))
		}
	}
	return out
}

// vfail is one oracle failure of one execution, before it is believed.
type vfail struct{ h, disc, what string }

func vfailSig(fs []vfail) string {
	var s []string
	for _, f := range fs {
		s = append(s, f.h+"|"+f.disc)
	}
	sort.Strings(s)
	return strings.Join(s, ";")
}

// vrtReport evaluates the oracle for execution x and reports its failures only after the same schedule has been
// re-executed three more times with an identical verdict. A verdict that does not reproduce is un-owned
// nondeterminism of the machinery: it is counted (unstable_verdicts), makes the run non-exhaustive, and is never
// raised as a violation. compute reads the harness' per-execution monitor, so it is called right after each run.
func vrtReport(r *kit.Run, cfg vrt.Config, body func(), x *vrt.Exec, compute func(*vrt.Exec) []vfail, cs any) {
	fs := compute(x)
	if len(fs) == 0 {
		return
	}
	want := vfailSig(fs)
	c := cfg
	c.TraceOn = false
	for i := 0; i < 3; i++ {
		y := vrt.RunOnce(&c, x.Choices(), body)
		if got := vfailSig(compute(y)); got != want {
			r.Count("unstable_verdicts", 1)
			r.NotExhaustive("a verdict did not reproduce when its schedule was re-executed (machinery nondeterminism): " + want + " vs " + got)
			return
		}
	}
	for _, f := range fs {
		r.Fail(f.h, f.disc, f.what, cs)
	}
}

func timeOfNS(ns int64) gotime.Time { return gotime.Unix(0, ns).UTC() }
