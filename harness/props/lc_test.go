package props

import (
	"fmt"
	"os"
	"sort"
	"strings"
	"testing"

	"github.com/hydraide/hydraide/app/core/hydra/swamp"
	"github.com/hydraide/hydraide/app/core/settings"
	"github.com/hydraide/hydraide/app/name"
	"github.com/hydraide/hydraide/app/vshim/vrt"
	hydrapb "github.com/hydraide/hydraide/sdk/go/hydraidego/v3/hydraidepbgo"
	"verifharness/kit"
)

// Lifecycle harness shared by C16 (acknowledged writes survive eviction, auto-destroy, shutdown), C17 part B
// (lifecycle waits terminate) and C18 (at most one live instance per swamp). The whole in-process server runs under
// the controlled scheduler; client threads issue gateway requests while idle-close ticks, auto-destroy, Destroy and
// GracefulStop happen; every schedule up to the deviation bound is executed.

type lcAck struct {
	act        string
	start, end int
	ok         bool // acknowledged as successful (NEW/UPDATED, incremented, DELETED, shifted, destroyed)
}

type lcCtx struct {
	rg      *rigT
	swamp   string
	clock   int
	acks    []*lcAck
	live    map[string]int
	created int
	viol    []vfail
	logs    *logCap
}

var lcc *lcCtx

func (c *lcCtx) tick() int { c.clock++; return c.clock }

// lcProbe is installed as vrt.Config.Probe: it counts constructed-but-not-closed swamp instances per name.
func lcProbe(pn string, a ...any) {
	c := lcc
	if c == nil {
		return
	}
	switch pn {
	case "swamp.create":
		n := ""
		if len(a) >= 3 {
			if nm, ok := a[2].(name.Name); ok {
				n = nm.Get()
			}
		}
		c.created++
		c.live[n]++
		if c.live[n] > 1 {
			c.viol = append(c.viol, vfail{"instances", "two-live-instances-of-one-swamp", fmt.Sprintf("a second in-memory instance of %s is constructed while the first has not reported closed (%d live)", n, c.live[n])})
		}
	case "swamp.closed":
		if len(a) >= 1 {
			n := swamp.VerifSwampName(a[0])
			if c.live[n] > 0 {
				c.live[n]--
			}
		}
	}
}

type lcAction struct {
	name string
	run  func(c *lcCtx) bool // returns whether the operation was acknowledged as successful
}

func lcActions() map[string]lcAction {
	m := map[string]lcAction{}
	add := func(a lcAction) { m[a.name] = a }
	set := func(key string, v int32) lcAction {
		return lcAction{fmt.Sprintf("Set(%s,%d)", key, v), func(c *lcCtx) bool {
			resp, err := c.rg.gw.Set(bg, &hydrapb.SetRequest{Swamps: []*hydrapb.SwampRequest{{IslandID: 1, SwampName: c.swamp, CreateIfNotExist: true, Overwrite: true, KeyValues: []*hydrapb.KeyValuePair{{Key: key, Int32Val: p(v)}}}}})
			if err != nil || resp == nil || len(resp.Swamps) == 0 || len(resp.Swamps[0].KeysAndStatuses) == 0 {
				return false
			}
			st := resp.Swamps[0].KeysAndStatuses[0].Status
			return st == hydrapb.Status_NEW || st == hydrapb.Status_UPDATED
		}}
	}
	add(set("b", 1))
	add(set("b", 2))
	add(set("a", 5))
	add(lcAction{"Inc(b)", func(c *lcCtx) bool {
		resp, err := c.rg.gw.IncrementInt32(bg, &hydrapb.IncrementInt32Request{IslandID: 1, SwampName: c.swamp, Key: "b", IncrementBy: 1})
		return err == nil && resp != nil && resp.IsIncremented
	}})
	add(lcAction{"Delete(a)", func(c *lcCtx) bool {
		resp, err := c.rg.gw.Delete(bg, &hydrapb.DeleteRequest{Swamps: []*hydrapb.DeleteRequest_SwampKeys{{IslandID: 1, SwampName: c.swamp, Keys: []string{"a"}}}})
		if err != nil || resp == nil || len(resp.Responses) == 0 || len(resp.Responses[0].KeyStatuses) == 0 {
			return false
		}
		return resp.Responses[0].KeyStatuses[0].Status == hydrapb.Status_DELETED
	}})
	add(lcAction{"Shift(a)", func(c *lcCtx) bool {
		resp, err := c.rg.gw.ShiftByKeys(bg, &hydrapb.ShiftByKeysRequest{IslandID: 1, SwampName: c.swamp, Keys: []string{"a"}})
		return err == nil && resp != nil && len(resp.Treasures) == 1
	}})
	add(lcAction{"Destroy", func(c *lcCtx) bool {
		_, err := c.rg.gw.Destroy(bg, &hydrapb.DestroyRequest{IslandID: 1, SwampName: c.swamp})
		return err == nil
	}})
	add(lcAction{"Get(a)", func(c *lcCtx) bool {
		_, err := c.rg.gw.Get(bg, &hydrapb.GetRequest{Swamps: []*hydrapb.GetSwamp{{IslandID: 1, SwampName: c.swamp, Keys: []string{"a"}}}})
		return err == nil
	}})
	add(lcAction{"Count", func(c *lcCtx) bool {
		_, err := c.rg.gw.Count(bg, &hydrapb.CountRequest{Swamps: []*hydrapb.CountRequest_SwampIdentifier{{IslandID: 1, SwampName: c.swamp}}})
		return err == nil
	}})
	// environment: the clock passes the idle window and the 1 s tickers (close listener, write listener) tick
	add(lcAction{"IdleTick", func(c *lcCtx) bool {
		vrt.Advance(5e9)
		vrt.FireNextTimers()
		return true
	}})
	// the 1 s tickers tick but the idle window has not passed: the write listener flushes, nothing is closed
	add(lcAction{"FlushTick", func(c *lcCtx) bool {
		vrt.FireNextTimers()
		return true
	}})
	add(lcAction{"Stop", func(c *lcCtx) bool {
		c.rg.z.GetHydra().GracefulStop()
		return true
	}})
	return m
}

type lcProg struct {
	conf    string     // sanctuary: idl (persistent, 1 s write interval, idle close after 1 s) | imi (persistent, immediate write, idle 1 s) | mei (in-memory, idle 1 s)
	initial []string   // keys present before the threads start ("a", "b")
	loaded  bool       // the swamp is in memory when the threads start (otherwise only on disk)
	threads [][]string // action names per thread
}

func (p lcProg) String() string {
	return fmt.Sprintf("%s initial=%v loaded=%v threads=%v", p.conf, p.initial, p.loaded, p.threads)
}

func lcRig() *rigT {
	r := newRig(true)
	reg := func(sanct string, inMem bool, wi int64) {
		r.set.RegisterPattern(name.New().Sanctuary(sanct).Realm("*").Swamp("*"), inMem, 1, nil2fs(inMem, wi))
	}
	reg("idl", false, 1)
	reg("imi", false, 0)
	reg("mei", true, 1)
	return r
}

func lcBody(pr lcProg, acts map[string]lcAction, finalRead *[2]string) func() {
	return func() {
		c := &lcCtx{rg: lcRig(), swamp: pr.conf + "/r/lc", live: map[string]int{}, logs: lcLogs}
		lcc = c
		c.logs.reset()
		for _, k := range pr.initial {
			c.rg.gw.Set(bg, &hydrapb.SetRequest{Swamps: []*hydrapb.SwampRequest{{IslandID: 1, SwampName: c.swamp, CreateIfNotExist: true, Overwrite: true, KeyValues: []*hydrapb.KeyValuePair{{Key: k, Int32Val: p(int32(1))}}}}})
		}
		if len(pr.initial) > 0 && pr.conf != "mei" {
			c.rg.flush(c.swamp)
			if !pr.loaded {
				c.rg.closeSwamp(c.swamp)
				vrt.Drain()
			}
		}
		vrt.Drain() // background goroutines started so far (panic monitor, listeners) reach their blocking selects
		var ths []*vrt.Thread
		for ti, prog := range pr.threads {
			prog := prog
			ths = append(ths, vrt.Go(fmt.Sprintf("T%d:%s", ti, strings.Join(prog, ";")), func() {
				for _, an := range prog {
					a := &lcAck{act: an, start: c.tick()}
					c.acks = append(c.acks, a)
					ok := acts[an].run(c)
					a.ok, a.end = ok, c.tick()
				}
			}))
		}
		for _, th := range ths {
			vrt.Join(th)
		}
		vrt.Quiesce()
		vrt.Drain() // background work that is already in flight (a listener in the middle of a flush) completes
		// quiescence, then a restart: a fresh server over the same files reads the swamp back
		if pr.conf != "mei" {
			c.rg.z.GetHydra().GracefulStop()
			r2 := newRig(false)
			r2.set.RegisterPattern(name.New().Sanctuary(pr.conf).Realm("*").Swamp("*"), false, 3600, nil2fs(false, 1))
			for i, k := range []string{"a", "b"} {
				g, err := r2.gw.Get(bg, &hydrapb.GetRequest{Swamps: []*hydrapb.GetSwamp{{IslandID: 1, SwampName: c.swamp, Keys: []string{k}}}})
				switch {
				case err != nil:
					finalRead[i] = "absent"
				case !g.Swamps[0].Treasures[0].IsExist:
					finalRead[i] = "absent"
				default:
					finalRead[i] = valStr(g.Swamps[0].Treasures[0])
				}
			}
		}
	}
}

var lcLogs = &logCap{}

// lcPreempt: scheduling points inside these functions are preemption candidates (the lifecycle decision points).
func lcNoPreempt(label string) bool { return lcNoPreemptIn(lcWide, label) }

var lcWide = []string{"hydra.(*hydra)", "(*swamp).Close", "(*swamp).Destroy", "(*swamp).DeleteTreasure", "CloneAndDelete", "startCloseListener", "startWriteListener",
	"fileWriterHandler", "vigil.", "server/gateway.Gateway", "WaitForGracefulClose", "IsClosing", "SaveFunction", "CreateTreasure", "deleteHandler", "fire-timers", "chroniclerV2).Write", "chroniclerV2).Close", "chroniclerV2).Destroy"}

// lcNarrow: the summon / close / destroy protocol only (C18, C17 part B)
var lcNarrow = []string{"hydra.(*hydra)", "(*swamp).Close", "(*swamp).Destroy", "(*swamp).DeleteTreasure", "CloneAndDelete", "startCloseListener", "vigil.", "WaitForGracefulClose", "sendClosedEvent", "fire-timers"}

func lcNoPreemptIn(set []string, label string) bool {
	for _, s := range set {
		if strings.Contains(label, s) {
			return false
		}
	}
	return true
}

func lcNoPreemptOld(label string) bool {
	for _, s := range []string{"hydra.(*hydra)", "(*swamp).Close", "(*swamp).Destroy", "(*swamp).DeleteTreasure", "CloneAndDelete", "startCloseListener", "startWriteListener",
		"fileWriterHandler", "vigil.", "server/gateway.Gateway", "WaitForGracefulClose", "IsClosing", "SaveFunction", "CreateTreasure", "deleteHandler", "fire-timers", "chroniclerV2).Write", "chroniclerV2).Close", "chroniclerV2).Destroy"} {
		if strings.Contains(label, s) {
			return false
		}
	}
	return true
}

// lcExpect: what the re-opened swamp must show for key b and key a, from the acknowledged operations.
func lcExpect(pr lcProg, c *lcCtx) (wantB, wantA []string, why string) {
	has := func(k string) bool { return inList(pr.initial, k) }
	var destroys, stops []*lcAck
	for _, a := range c.acks {
		if a.act == "Destroy" && a.ok {
			destroys = append(destroys, a)
		}
		if a.act == "Stop" {
			stops = append(stops, a)
		}
	}
	// a Destroy or a Stop that overlaps with, or follows, a write makes the write's fate open
	clear := func(w *lcAck) bool {
		for _, d := range destroys {
			if d.end > w.start {
				return false
			}
		}
		return true
	}
	// key b
	var bw []*lcAck
	for _, a := range c.acks {
		if (strings.HasPrefix(a.act, "Set(b") || a.act == "Inc(b)") && a.ok {
			bw = append(bw, a)
		}
	}
	switch {
	case len(destroys) > 0 && len(bw) == 0:
		wantB = []string{"absent", "i32:1"}
		if !has("b") {
			wantB = []string{"absent"}
		}
	case len(bw) == 0:
		if has("b") {
			wantB = []string{"i32:1"}
		} else {
			wantB = []string{"absent"}
		}
	default:
		vals := map[string]bool{}
		incs, sets := 0, 0
		allClear := true
		for _, w := range bw {
			if !clear(w) {
				allClear = false
			}
			if w.act == "Inc(b)" {
				incs++
			} else {
				sets++
				vals["i32:"+strings.TrimSuffix(strings.TrimPrefix(w.act, "Set(b,"), ")")] = true
			}
		}
		if sets == 0 {
			base := 0
			if has("b") && len(destroys) == 0 {
				base = 1
			}
			vals[fmt.Sprintf("i32:%d", base+incs)] = true
			if len(destroys) > 0 { // a destroyed swamp restarts the counter; any acknowledged count from 1 up is consistent
				for i := 1; i <= base+incs+1; i++ {
					vals[fmt.Sprintf("i32:%d", i)] = true
				}
			}
		} else if incs > 0 {
			for v := range vals {
				var n int
				fmt.Sscanf(v, "i32:%d", &n)
				for i := 0; i <= incs; i++ {
					vals[fmt.Sprintf("i32:%d", n+i)] = true
				}
			}
		}
		for v := range vals {
			wantB = append(wantB, v)
		}
		if !allClear {
			wantB = append(wantB, "absent")
			why = "a Destroy overlaps or follows the write"
		}
	}
	// key a
	removed := false
	for _, a := range c.acks {
		if (a.act == "Delete(a)" || a.act == "Shift(a)") && a.ok {
			removed = true
		}
	}
	var aw []*lcAck
	for _, a := range c.acks {
		if strings.HasPrefix(a.act, "Set(a") && a.ok {
			aw = append(aw, a)
		}
	}
	switch {
	case len(aw) > 0:
		wantA = []string{"i32:5"}
		if removed || len(destroys) > 0 {
			wantA = append(wantA, "absent", "i32:1")
		}
	case removed:
		wantA = []string{"absent"}
	case len(destroys) > 0:
		wantA = []string{"absent", "i32:1"}
		if !has("a") {
			wantA = []string{"absent"}
		}
	case has("a"):
		wantA = []string{"i32:1"}
	default:
		wantA = []string{"absent"}
	}
	sort.Strings(wantB)
	sort.Strings(wantA)
	return
}

func lcMain(prop string, progs []lcProg, boundQ, boundT int, what string, level string) {
	rigSetup()
	lcLogs.install()
	r := kit.Start(prop, level)
	defer r.Finish()
	bound := boundQ
	if !r.Quick() {
		bound = boundT
	}
	r.Rule = what + lcRuleTail(bound, len(progs))
	r.Assumptions = lcAssumptions
	r.Parallel(16, "Test"+prop, func() {
		if prop == "C18" {
			c17cExplore(r, "C18") // the summon protocol at the hydra API with the live-instance monitor
		}
		lcExplore(r, prop, progs, bound)
	})
}

var lcAssumptions = []string{"sequentially consistent memory (scheduling points at synchronisation operations)", "idle eviction is driven by an environment thread that advances the virtual clock past the idle window and fires the 1 s tickers as an ordinary thread step", "deadlock = no enabled thread or timer while a client thread is unfinished, or all client threads blocked for 10 virtual minutes while only periodic timers run"}

func lcRuleTail(bound, n int) string {
	return fmt.Sprintf(" Every schedule with at most %d preemptions at the scheduling points of the lifecycle code (hydra summon/close/stop, swamp Close/Destroy/delete/save, vigil, close and write listeners, gateway handlers, chronicler write/close/destroy); %d thread programs; the whole in-process server (settings, zeus, hydra, gateway, chronicler on the in-memory file system) is rebuilt for every execution. Non-trivial = executions with at least one preemption", bound, n)
}

// lcExplore runs the lifecycle programs under the explorer inside an already started run (worker or not).
func lcExplore(r *kit.Run, prop string, progs []lcProg, bound int) {
	rigSetup()
	lcLogs.install()
	acts := lcActions()
	var pn []string
	for _, p := range progs {
		pn = append(pn, p.String())
	}
	r.Extra["program_list"] = pn
	r.Extra["programs"] = len(pn)
	r.Extra["deviation_bound"] = bound
	{
		for pi, pr := range progs {
			pr := pr
			var finalRead [2]string
			body := lcBody(pr, acts, &finalRead)
			e := &vrt.Explorer{Body: body, Stop: r.OutOfTime}
			e.Shard, e.ShardN = r.Shard()
			b := bound
			np := lcNoPreempt
			if prop != "C16" {
				np = func(l string) bool { return lcNoPreemptIn(lcNarrow, l) }
			}
			e.Cfg = vrt.Config{Bound: b, Sites: true, NoPreempt: np, StepCap: 400000, Probe: lcProbe, EnvIdle: true}
			e.Check = func(x *vrt.Exec) {
				r.Eval(1)
				c := lcc
				cs := map[string]any{"program": pr.String(), "schedule": x.Choices(), "deviations": x.Cost}
				compute := func(x *vrt.Exec) []vfail {
					c := lcc
					var out []vfail
					if c.created == 0 {
						out = append(out, vfail{"engine", "probe-missing", "no swamp.create probe fired: the probe configuration no longer matches the code"})
					}
					if x.Deadlock || x.Horizon {
						if prop == "C17" || prop == "C16" {
							d := "request-or-shutdown-blocked-forever"
							if x.Horizon {
								d = "step-horizon"
							}
							var bl []string
							for _, b := range x.Blocked {
								if i := strings.Index(b, "@"); i >= 0 {
									b = b[:strings.Index(b, ":")] + ":" + b[i+1:]
								}
								bl = append(bl, b)
							}
							if prop == "C17" {
								out = append(out, vfail{"lifecycle", d, fmt.Sprintf("program %s: threads blocked forever: %v", pr, bl)})
							}
						}
						return out
					}
					for _, pn := range x.Panics {
						out = append(out, vfail{"lifecycle", "thread-panic", pn})
					}
					if prop == "C18" {
						out = append(out, c.viol...)
					}
					if prop == "C16" && pr.conf != "mei" {
						wantB, wantA, why := lcExpect(pr, c)
						var ackS []string
						for _, a := range c.acks {
							ackS = append(ackS, fmt.Sprintf("%s[%d-%d]ok=%v", a.act, a.start, a.end, a.ok))
						}
						if !inList(wantB, finalRead[0+1]) {
							out = append(out, vfail{"durability", "acknowledged-write-lost:" + lcClass(pr) + ":" + lcPreemptedIn(x), fmt.Sprintf("program %s: acknowledged operations %v; after restart b reads %s, admissible %v %s", pr, ackS, finalRead[1], wantB, why)})
						}
						if !inList(wantA, finalRead[0]) {
							out = append(out, vfail{"durability", "record-a-wrong-after-restart:" + lcClass(pr) + ":" + lcPreemptedIn(x), fmt.Sprintf("program %s: acknowledged operations %v; after restart a reads %s, admissible %v", pr, ackS, finalRead[0], wantA)})
						}
					}
					return out
				}
				vrtReport(r, e.Cfg, body, x, compute, cs)
				if x.Cost > 0 {
					r.Nontrivial(fmt.Sprintf("%d/%v", pi, x.Choices()))
				}
				pan := 0
				for _, l := range c.logs.take() {
					if strings.Contains(l, "panic") {
						pan++
					}
				}
				if pan > 0 {
					r.Count("executions_with_a_recovered_request_panic", 1)
				}
				r.Outcome(fmt.Sprintf("%d|%v|%v|%d", pi, finalRead, x.Deadlock, len(c.viol)))
				if x.Deadlock {
					r.Count("nonterminating_schedules", 1)
				}
			}
			if !r.Quick() {
				// the thorough tier stops each program after a fixed number of executions per worker rather than on the
				// clock alone: which schedules are reached (and therefore which known findings are met) is then the same
				// on every run and does not depend on how loaded the machine is
				e.MaxExecs = lcThoroughExecsPerProgram
			}
			e.Run()
			if os.Getenv("VERIF_DEBUG") != "" {
				fmt.Fprintf(os.Stderr, "prog %s bound %d: execs=%d capped=%v maxpoints=%d maxsteps=%d\n", pr, b, e.Stats.Execs, e.Stats.Capped, e.Stats.MaxPoints, e.Stats.MaxSteps)
			}
			r.Count("executions", int64(e.Stats.Execs))
			r.SetMax("max_points_per_execution", int64(e.Stats.MaxPoints))
			if e.Stats.Capped {
				r.NotExhaustive(fmt.Sprintf("program %s capped after %d executions", pr, e.Stats.Execs))
			}
			if pi == 0 {
				if sh, _ := r.Shard(); sh == 0 {
					x := vrt.RunOnce(&vrt.Config{Bound: bound, Sites: true, NoPreempt: lcNoPreempt, Probe: lcProbe, NoRecord: true, EnvIdle: true}, nil, body)
					r.Sample(map[string]any{"program": pr.String(), "steps": x.Steps, "final_read_a_b": finalRead, "deadlock": x.Deadlock})
				}
			}
		}
	}
}

// lcPreemptedIn names the function in which the schedule's FIRST preemption stopped a thread (without the module
// path): it pins a finding to the window in which the interleaving starts, so that a loss through another window of
// the same program is a different finding. Later preemptions of the same schedule are not part of the name (with
// two preemptions the pairs would number in the hundreds and an exploration cut short by its budget could meet a
// pair no earlier run had seen).
func lcPreemptedIn(x *vrt.Exec) string {
	if len(x.Preempted) == 0 {
		return "no-preemption"
	}
	f := x.Preempted[0]
	if i := strings.Index(f, "@"); i >= 0 {
		f = f[i+1:]
	}
	f = strings.TrimPrefix(f, "github.com/hydraide/hydraide/app/")
	if j := strings.Index(f, ".func"); j >= 0 { // closures: name the enclosing function
		f = f[:j]
	}
	return "first-preemption-in=" + f
}

const lcThoroughExecsPerProgram = 1200

func lcClass(pr lcProg) string {
	var k []string
	for _, th := range pr.threads {
		for _, a := range th {
			switch {
			case a == "IdleTick":
				k = append(k, "idle-tick")
			case a == "FlushTick":
				k = append(k, "flush-tick")
			case a == "Stop":
				k = append(k, "shutdown")
			case a == "Delete(a)" || a == "Shift(a)":
				k = append(k, "auto-destroy")
			case a == "Destroy":
				k = append(k, "destroy")
			}
		}
	}
	sort.Strings(k)
	return pr.conf + ":" + strings.Join(k, "+")
}

func TestC16(t *testing.T) {
	var progs []lcProg
	for _, conf := range []string{"idl", "imi"} {
		progs = append(progs,
			lcProg{conf, []string{"a"}, true, [][]string{{"Set(b,1)"}, {"Delete(a)"}}},
			lcProg{conf, []string{"a"}, true, [][]string{{"Inc(b)"}, {"Shift(a)"}}},
			lcProg{conf, []string{"a"}, true, [][]string{{"Set(b,1)"}, {"IdleTick"}}},
			lcProg{conf, []string{"a", "b"}, true, [][]string{{"Set(b,2)"}, {"IdleTick"}}},
			lcProg{conf, []string{"a"}, false, [][]string{{"Set(b,1)"}, {"Delete(a)"}}},
			lcProg{conf, []string{"a", "b"}, true, [][]string{{"Set(b,2)", "Set(b,1)"}, {"IdleTick"}}},
		)
	}
	progs = append(progs, lcProg{"imi", []string{"a"}, true, [][]string{{"Set(b,1)"}, {"Stop"}}},
		lcProg{"idl", []string{"a", "b"}, true, [][]string{{"Set(b,2)", "Set(b,1)"}, {"FlushTick"}}},
		lcProg{"idl", []string{"a", "b"}, true, [][]string{{"Set(b,2)", "Delete(a)"}, {"FlushTick"}}},
		lcProg{"idl", []string{"a"}, true, [][]string{{"Inc(b)", "Inc(b)"}, {"FlushTick"}}})
	if os.Getenv("VERIF_TIER") == "thorough" {
		progs = append(progs, lcProg{"idl", []string{"a"}, true, [][]string{{"Set(b,1)"}, {"Delete(a)"}, {"IdleTick"}}},
			lcProg{"idl", []string{"a"}, true, [][]string{{"Set(b,1)"}, {"Stop"}}})
	}
	lcMain("C16", progs, 1, 2, "A persistent swamp (write interval 1 s, and immediate write) with one record a; client threads write b (Set / Increment) while the last record is deleted or shifted away (automatic destroy), the idle window passes and the close and write listeners tick, or the server shuts down (GracefulStop); then the server is stopped and a fresh server over the same files reads a and b. Oracle: every write acknowledged NEW/UPDATED/incremented is present after the restart unless an acknowledged Destroy overlaps or follows it; a is absent iff its removal was acknowledged.", "exploration")
}

func TestC18(t *testing.T) {
	var progs []lcProg
	for _, conf := range []string{"mei", "idl"} {
		progs = append(progs,
			lcProg{conf, nil, true, [][]string{{"Set(b,1)"}, {"Set(a,5)"}}},
			lcProg{conf, []string{"a"}, true, [][]string{{"Delete(a)"}, {"Set(b,1)"}}},
			lcProg{conf, []string{"a"}, true, [][]string{{"Destroy"}, {"Set(b,1)"}}},
			lcProg{conf, []string{"a"}, true, [][]string{{"IdleTick"}, {"Set(b,1)"}}},
			lcProg{conf, []string{"a"}, true, [][]string{{"Shift(a)"}, {"Get(a)"}}},
		)
	}
	progs = append(progs,
		lcProg{"mei", nil, true, [][]string{{"Set(b,1)"}, {"Set(a,5)"}, {"Get(a)"}}},
		lcProg{"mei", []string{"a"}, true, [][]string{{"Delete(a)"}, {"Set(b,1)"}, {"Get(a)"}}},
		lcProg{"mei", []string{"a"}, true, [][]string{{"IdleTick"}, {"Set(b,1)"}, {"Get(a)"}}},
	)
	if os.Getenv("VERIF_TIER") == "thorough" {
		progs = append(progs,
			lcProg{"mei", []string{"a"}, true, [][]string{{"Destroy"}, {"Set(b,1)"}, {"Count"}}},
			lcProg{"mei", []string{"a"}, true, [][]string{{"Shift(a)"}, {"Inc(b)"}, {"Inc(b)"}}},
			lcProg{"idl", []string{"a"}, true, [][]string{{"Delete(a)"}, {"Set(b,1)"}, {"Get(a)"}}},
		)
	}
	lcMain("C18", progs, 1, 2, "Two or three client threads on one swamp (initially absent / present) while it is being created, emptied (automatic destroy), destroyed or idle-evicted; probes at the construction of a swamp instance (hydra.createNewSwamp) and at its closed event (swamp.sendClosedEvent) count constructed-but-not-closed instances per name. Oracle: the count never exceeds one.", "exploration")
}

// c17swamp is part B of C17: the same lifecycle programs with the termination oracle.
func c17swampProgs() []lcProg {
	var progs []lcProg
	thorough := os.Getenv("VERIF_TIER") == "thorough"
	for _, conf := range []string{"mei", "idl"} {
		progs = append(progs,
			lcProg{conf, []string{"a"}, true, [][]string{{"Set(b,1)"}, {"Destroy"}}},
			lcProg{conf, []string{"a"}, true, [][]string{{"Delete(a)"}, {"Set(b,1)"}}},
			lcProg{conf, []string{"a"}, true, [][]string{{"IdleTick"}, {"Destroy"}}},
		)
		if conf == "mei" || thorough {
			progs = append(progs,
				lcProg{conf, []string{"a"}, true, [][]string{{"Set(b,1)"}, {"Stop"}}},
				lcProg{conf, []string{"a"}, true, [][]string{{"Destroy"}, {"Stop"}}},
			)
		}
	}
	if thorough {
		progs = append(progs,
			lcProg{"mei", []string{"a"}, true, [][]string{{"Set(b,1)"}, {"Destroy"}, {"Get(a)"}}},
			lcProg{"mei", []string{"a"}, true, [][]string{{"Delete(a)"}, {"Set(b,1)"}, {"Get(a)"}}},
			lcProg{"mei", []string{"a"}, true, [][]string{{"Destroy"}, {"Get(a)"}, {"Count"}, {"Stop"}}},
			lcProg{"mei", []string{"a"}, true, [][]string{{"IdleTick"}, {"Inc(b)"}, {"Destroy"}}},
			lcProg{"idl", []string{"a"}, true, [][]string{{"Set(b,1)"}, {"Destroy"}, {"Get(a)"}}},
		)
	}
	return progs
}

func nil2fs(inMem bool, wi int64) *settings.FileSystemSettings {
	return &settings.FileSystemSettings{WriteIntervalSec: wi, MaxFileSizeByte: 8192}
}
