package props

import (
	"fmt"
	"strings"
	"testing"

	"github.com/hydraide/hydraide/app/core/hydra/swamp/treasure/guard"
	"github.com/hydraide/hydraide/app/vshim/vrt"
	"verifharness/kit"
)

// C15 — record guard gives exclusive, arrival-ordered access.
// The real guard runs under the controlled scheduler (vrt): 2–3 threads, each a short program over
// {Start(wait), Start(no-wait), Release(own), Release(own) again, Release(a parked waiter's id), Release(never issued)}.
// Every interleaving up to the preemption bound is executed; monitors run inside the execution.

const (
	c15SW = 'W' // StartTreasureGuard(true)
	c15SN = 'N' // StartTreasureGuard(false)
	c15RO = 'r' // release the id this thread holds
	c15RD = 'd' // release again the id this thread released last (duplicate release)
	c15RW = 'w' // release the id of the last parked waiter (an id that belongs to another operation and is not the head)
	c15RN = 'n' // release an id that was never issued
	c15RP = 'p' // release the id this thread holds while a helper thread releases the same id at the same time (an explicit and a deferred release of one operation racing each other)
)

type c15thread struct {
	pc           int
	held, lastRe int64
	op           byte  // operation in progress
	relID        int64 // id passed to the release in progress
}

type c15mon struct {
	g        guard.Guard
	th       []c15thread
	holders  map[int]int64
	prevQ    []int64
	arrivals []int64
	acqs     []int64
	dupDone  bool // a duplicate release has been issued in this execution
	weird    int
	viol     []kit.Failure
}

var c15m *c15mon

// fail records the first violation of an execution only: whatever follows it is a consequence.
func (m *c15mon) fail(disc, what string) {
	if len(m.viol) < 1 {
		m.viol = append(m.viol, kit.Failure{Signature: disc, What: what})
	}
}

func eqI64(a, b []int64) bool {
	if len(a) != len(b) {
		return false
	}
	for i := range a {
		if a[i] != b[i] {
			return false
		}
	}
	return true
}

// observe brings the arrival log up to date with the guard's queue. Called by the scheduler at every decision
// (all threads parked) and by the monitors before they look at the log.
func (m *c15mon) observe() {
	if m == nil || m.g == nil {
		return
	}
	q, _ := guard.VerifState(m.g)
	p := m.prevQ
	switch {
	case eqI64(q, p):
	case len(q) == len(p)+1 && eqI64(q[:len(p)], p):
		m.arrivals = append(m.arrivals, q[len(p)])
	case len(p) > 0 && eqI64(q, p[1:]):
		m.popped(p[0])
	case len(p) > 0 && len(q) == len(p) && eqI64(q[:len(q)-1], p[1:]):
		m.popped(p[0])
		m.arrivals = append(m.arrivals, q[len(q)-1])
	default:
		m.weird++
	}
	m.prevQ = q
}

// popped is called when the head id left the queue; the thread that ran last did it. Unless that thread is in
// its own first release of that id, a holder of the id has been evicted by somebody else's release.
func (m *c15mon) popped(id int64) {
	c := vrt.Cur()
	if c == nil {
		return
	}
	t, ok := c.Local.(int)
	if !ok {
		return
	}
	st := &m.th[t]
	if (st.op == c15RO || st.op == c15RP) && st.relID == id {
		return
	}
	for h, hid := range m.holders {
		if hid == id {
			kind := map[byte]string{c15RD: "duplicate", c15RW: "waiter-id", c15RN: "never-issued", c15RO: "own", c15RP: "racing-duplicate"}[st.op]
			m.fail("non-own-release-evicts-holder:"+kind, fmt.Sprintf("thread %d holds id %d; thread %d's %s release of id %d removed it from the head of the queue", h, hid, t, kind, st.relID))
		}
	}
}

func (m *c15mon) acquired(t int, id int64) {
	m.observe()
	m.th[t].held = id
	m.holders[t] = id
	m.acqs = append(m.acqs, id)
	if len(m.holders) > 1 {
		d := "two-holders"
		if m.dupDone {
			d = "two-holders:after-duplicate-release"
		}
		m.fail(d, fmt.Sprintf("two operations hold the guard at once: %v (thread->id)", m.holders))
	}
	n := len(m.acqs)
	if n > len(m.arrivals) || !eqI64(m.acqs, m.arrivals[:n]) {
		m.fail("acquisition-out-of-arrival-order", fmt.Sprintf("acquisitions %v are not a prefix of arrivals %v", m.acqs, m.arrivals))
	}
}

// holderIntact checks, after a release that was not the holder's own first release, that the holder (if any)
// is still the head of the queue.
func (m *c15mon) holderIntact(kind string) {
	m.observe()
	q, _ := guard.VerifState(m.g)
	for t, id := range m.holders {
		if len(q) == 0 || q[0] != id {
			m.fail("non-own-release-evicts-holder:"+kind, fmt.Sprintf("thread %d holds id %d, but after a %s release the queue is %v", t, id, kind, q))
		}
	}
}

func c15run(t int, prog string) {
	m := c15m
	g := m.g
	st := &m.th[t]
	for st.pc = 0; st.pc < len(prog); st.pc++ {
		op := prog[st.pc]
		st.op, st.relID = op, 0
		func() {
			defer func() {
				if p := recover(); p != nil {
					m.fail(fmt.Sprintf("panic:%c", op), fmt.Sprintf("op %c of thread %d panics: %v", op, t, p))
				}
			}()
			switch op {
			case c15SW:
				id := int64(g.StartTreasureGuard(true))
				m.acquired(t, id)
			case c15SN:
				if id := int64(g.StartTreasureGuard(false)); id != 0 {
					m.acquired(t, id)
				}
			case c15RO:
				if st.held != 0 {
					id := st.held
					delete(m.holders, t)
					st.held, st.lastRe, st.relID = 0, id, id
					g.ReleaseTreasureGuard(guard.ID(id))
					m.observe()
				}
			case c15RP:
				if st.held != 0 {
					id := st.held
					delete(m.holders, t)
					st.held, st.lastRe, st.relID = 0, id, id
					m.dupDone = true
					h := vrt.Go(fmt.Sprintf("T%d:dup-release", t), func() { g.ReleaseTreasureGuard(guard.ID(id)) })
					h.Local = t
					g.ReleaseTreasureGuard(guard.ID(id))
					vrt.Join(h)
					m.holderIntact("racing-duplicate")
				}
			case c15RD:
				if st.lastRe != 0 && st.held == 0 {
					m.dupDone = true
					st.relID = st.lastRe
					g.ReleaseTreasureGuard(guard.ID(st.lastRe))
					m.holderIntact("duplicate")
				}
			case c15RW:
				q, _ := guard.VerifState(g)
				if len(q) > 1 {
					st.relID = q[len(q)-1]
					g.ReleaseTreasureGuard(guard.ID(q[len(q)-1]))
					m.holderIntact("waiter-id")
				}
			case c15RN:
				st.relID = 999
				g.ReleaseTreasureGuard(guard.ID(999))
				m.holderIntact("never-issued")
			}
		}()
	}
}

func c15key() string {
	m := c15m
	if m == nil || m.g == nil {
		return ""
	}
	q, c := guard.VerifState(m.g)
	return fmt.Sprintf("%v|%d|%v|%v|%v|%v|%d", q, c, m.th, m.holders, m.arrivals[len(m.acqs):], m.dupDone, len(m.viol))
}

func TestC15(t *testing.T) {
	quietLogs()
	r := kit.Start("C15", "model_checking")
	defer r.Finish()
	progs := []string{"Wr", "Nr", "Wrd", "Nrd", "Wnr", "n", "Wwr", "WrWr", "WrNr", "Wp"}
	bound := 2
	if !r.Quick() {
		bound = -1 // unbounded: every interleaving, made finite by state-key pruning
	}
	r.Rule = fmt.Sprintf("real guard.New() under the controlled scheduler; thread programs %v (W=Start(wait) N=Start(no-wait) r=Release(own) d=Release(own) again n=Release(never-issued id) w=Release(id of the last parked waiter) p=Release(own) racing with a second release of the same id by a helper thread); every multiset of 2 and of 3 programs; every schedule with at most %s preemptions (scheduling points before every Lock/Unlock/Cond.Wait/Signal/Broadcast/atomic op), pruned on the full state key (queue, counter, thread positions and ids, holders, pending arrivals). Monitors: at most one thread between a successful Start and its own first Release; acquisitions are a prefix of arrivals (arrival = the id appearing in the queue, observed at every scheduling decision); a duplicate / never-issued / waiter-id release leaves the holder at the head; no thread stays blocked when all others have finished. Non-trivial = executions in which some thread had to wait or was refused", progs, map[bool]string{true: "any number of", false: fmt.Sprint(bound)}[bound < 0])
	r.Assumptions = []string{"sequentially consistent memory: scheduling points only at synchronisation operations (unsynchronised accesses are C10's subject)", "releasing the id that is currently the head counts as the holder's release: the guard identifies holders by id only", "deadlocks are counted, not raised: the property does not state termination"}
	var cfgs [][]string
	for i := range progs {
		for j := i; j < len(progs); j++ {
			cfgs = append(cfgs, []string{progs[i], progs[j]})
			for k := j; k < len(progs); k++ {
				cfgs = append(cfgs, []string{progs[i], progs[j], progs[k]})
			}
		}
	}
	r.Extra["configurations"] = len(cfgs)
	r.Extra["preemption_bound"] = bound
	r.Parallel(16, "TestC15", func() {
		for ci, ps := range cfgs {
			if !r.Mine(ci) {
				continue
			}
			if r.OutOfTime() {
				r.NotExhaustive("time budget reached before all configurations were explored")
				break
			}
			ps := ps
			body := func() {
				m := &c15mon{g: guard.New(), th: make([]c15thread, len(ps)), holders: map[int]int64{}}
				c15m = m
				var ths []*vrt.Thread
				for i, p := range ps {
					i, p := i, p
					th := vrt.Go(fmt.Sprintf("T%d:%s", i, p), func() { c15run(i, p) })
					th.Local = i
					ths = append(ths, th)
				}
				for _, th := range ths {
					vrt.Join(th)
				}
			}
			e := &vrt.Explorer{Body: body, Stop: r.OutOfTime}
			e.Cfg = vrt.Config{Bound: bound, StateKey: c15key, OnPoint: func() { c15m.observe() }, TraceOn: false}
			e.Check = func(x *vrt.Exec) {
				m := c15m
				r.Eval(1)
				waited := len(m.acqs) < strings.Count(strings.Join(ps, ""), "W")+strings.Count(strings.Join(ps, ""), "N") || x.Cost > 0
				if waited {
					r.Nontrivial(fmt.Sprintf("%d/%v", ci, x.Choices()))
				}
				r.Outcome(fmt.Sprintf("acq=%d dl=%v viol=%d", len(m.acqs), x.Deadlock, len(m.viol)))
				if x.Deadlock {
					// every program releases what it acquires, so a thread that stays blocked is a waiter that is never served
					r.Count("deadlocked_schedules", 1)
					m.fail("waiter-never-acquires", fmt.Sprintf("the execution ends with blocked threads %v; arrivals %v, acquisitions %v", x.Blocked, m.arrivals, m.acqs))
				} else if !x.Horizon && !eqI64(m.acqs, m.arrivals) {
					m.fail("arrival-never-acquired", fmt.Sprintf("all threads finished but arrivals %v != acquisitions %v", m.arrivals, m.acqs))
				}
				if x.Horizon {
					r.NotExhaustive("step horizon reached in an execution")
				}
				if m.weird > 0 {
					r.Count("unclassified_queue_transitions", int64(m.weird))
				}
				if x.Diverged != "" {
					r.Fail("engine", "replay-diverged", x.Diverged, map[string]any{"programs": ps, "schedule": x.Choices()})
				}
				for _, p := range x.Panics {
					r.Fail("guard", "panic:thread", "a managed thread panicked: "+p, map[string]any{"programs": ps, "schedule": x.Choices()})
				}
				for _, v := range m.viol {
					r.Fail("guard", v.Signature, fmt.Sprintf("programs %v: %s", ps, v.What), map[string]any{"programs": ps, "schedule": x.Choices(), "preemptions": x.Cost})
				}
			}
			e.Run()
			r.Count("executions", int64(e.Stats.Execs))
			r.Count("pruned_branches", int64(e.Stats.Pruned))
			r.Count("state_keys", int64(e.Stats.States))
			r.SetMax("max_points_per_execution", int64(e.Stats.MaxPoints))
			if e.Stats.Capped {
				r.NotExhaustive(fmt.Sprintf("configuration %v capped after %d executions", ps, e.Stats.Execs))
			}
			if ci == 2 {
				x := vrt.RunOnce(&vrt.Config{Bound: bound, TraceOn: true}, nil, body)
				r.Sample(map[string]any{"programs": ps, "schedule": x.Choices(), "trace": x.Trace, "acquisitions": c15m.acqs, "arrivals": c15m.arrivals})
			}
		}
	})
}
