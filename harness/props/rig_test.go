package props

import (
	"context"
	"fmt"
	"os"
	"sort"
	"strings"

	"github.com/hydraide/hydraide/app/core/filesystem"
	"github.com/hydraide/hydraide/app/core/settings"
	"github.com/hydraide/hydraide/app/core/zeus"
	"github.com/hydraide/hydraide/app/name"
	"github.com/hydraide/hydraide/app/server/gateway"
	"github.com/hydraide/hydraide/app/vshim/vos"
	"github.com/hydraide/hydraide/app/vshim/vrt"
	hydrapb "github.com/hydraide/hydraide/sdk/go/hydraidego/v3/hydraidepbgo"
	"google.golang.org/protobuf/types/known/timestamppb"
)

// rigT is the in-process server: settings -> zeus -> hydra -> Gateway on the in-memory file system (vos).
// Sanctuaries select the swamp configuration:  mem/* in-memory, dsk/* persistent with a 1 s write interval,
// imm/* persistent with write interval 0 (immediate write). Idle close after 1 h (never, unless a harness
// advances the clock and lets the close listener tick).
type rigT struct {
	gw  gateway.Gateway
	set settings.Settings
	z   zeus.Zeus
}

const rigRoot = "/h"

// daemon spawn sites of the full stack (goroutines that never finish on their own)
var rigDaemonSites = []string{"swamp.New", "panichandler.SafeGo"}

func rigSetup() {
	os.Setenv("HYDRAIDE_ROOT_PATH", rigRoot)
	vrt.DaemonSites = rigDaemonSites
}

// newRig builds a fresh server. fresh=true starts from an empty file system; false keeps vos (restart).
func newRig(fresh bool) *rigT {
	if fresh {
		vos.UseMem()
	}
	s := settings.New(2, 100)
	s.SetEngine(settings.EngineV2)
	reg := func(sanct string, inMem bool, wi int64) {
		s.RegisterPattern(name.New().Sanctuary(sanct).Realm("*").Swamp("*"), inMem, 3600, &settings.FileSystemSettings{WriteIntervalSec: wi, MaxFileSizeByte: 8192})
	}
	reg("mem", true, 1)
	reg("dsk", false, 1)
	reg("imm", false, 0)
	z := zeus.New(s, filesystem.New())
	z.StartHydra()
	return &rigT{set: s, z: z, gw: gateway.Gateway{SettingsInterface: s, ZeusInterface: z, DefaultCloseAfterIdle: 3600, DefaultWriteInterval: 1, DefaultFileSize: 8192}}
}

var bg = context.Background()

func sw(sanct string) string { return sanct + "/r/w" }

func ts(sec int64) *timestamppb.Timestamp { return &timestamppb.Timestamp{Seconds: sec} }

// closeSwamp closes the live instance of a swamp (the call idle eviction and shutdown make) if there is one.
func (r *rigT) closeSwamp(swampName string) bool {
	h := r.z.GetHydra()
	for _, n := range h.ListActiveSwamps() {
		if n == swampName {
			s, err := h.SummonSwamp(bg, 1, name.Load(swampName))
			if err != nil {
				return false
			}
			s.Close()
			return true
		}
	}
	return false
}

// ---- compact rendering of treasures for comparisons ----

func tsStr(t *timestamppb.Timestamp) string {
	if t == nil {
		return "-"
	}
	return fmt.Sprintf("%d.%09d", t.Seconds, t.Nanos)
}

func optS(s *string) string {
	if s == nil {
		return "-"
	}
	return fmt.Sprintf("%q", *s)
}

// valStr renders the typed value of a treasure (which oneof-like field is set, and its value).
func valStr(t *hydrapb.Treasure) string {
	var p []string
	if t.Int8Val != nil {
		p = append(p, fmt.Sprintf("i8:%d", *t.Int8Val))
	}
	if t.Int16Val != nil {
		p = append(p, fmt.Sprintf("i16:%d", *t.Int16Val))
	}
	if t.Int32Val != nil {
		p = append(p, fmt.Sprintf("i32:%d", *t.Int32Val))
	}
	if t.Int64Val != nil {
		p = append(p, fmt.Sprintf("i64:%d", *t.Int64Val))
	}
	if t.Uint8Val != nil {
		p = append(p, fmt.Sprintf("u8:%d", *t.Uint8Val))
	}
	if t.Uint16Val != nil {
		p = append(p, fmt.Sprintf("u16:%d", *t.Uint16Val))
	}
	if t.Uint32Val != nil {
		p = append(p, fmt.Sprintf("u32:%d", *t.Uint32Val))
	}
	if t.Uint64Val != nil {
		p = append(p, fmt.Sprintf("u64:%d", *t.Uint64Val))
	}
	if t.Float32Val != nil {
		p = append(p, fmt.Sprintf("f32:%v", *t.Float32Val))
	}
	if t.Float64Val != nil {
		p = append(p, fmt.Sprintf("f64:%v", *t.Float64Val))
	}
	if t.StringVal != nil {
		p = append(p, fmt.Sprintf("s:%q", *t.StringVal))
	}
	if t.BoolVal != nil {
		p = append(p, fmt.Sprintf("b:%v", *t.BoolVal))
	}
	if t.BytesVal != nil {
		p = append(p, fmt.Sprintf("by:%x", t.BytesVal))
	}
	if t.Uint32Slice != nil {
		p = append(p, fmt.Sprintf("sl:%v", t.Uint32Slice))
	}
	if len(p) == 0 {
		return "void"
	}
	return strings.Join(p, "+")
}

func treasureStr(t *hydrapb.Treasure) string {
	if t == nil {
		return "<nil>"
	}
	if !t.IsExist {
		return t.Key + ":absent"
	}
	return fmt.Sprintf("%s:%s c=%s/%s u=%s/%s e=%s", t.Key, valStr(t), tsStr(t.CreatedAt), optS(t.CreatedBy), tsStr(t.UpdatedAt), optS(t.UpdatedBy), tsStr(t.ExpiredAt))
}

func treasuresStr(ts []*hydrapb.Treasure, sorted bool) string {
	var s []string
	for _, t := range ts {
		s = append(s, treasureStr(t))
	}
	if sorted {
		sort.Strings(s)
	}
	return strings.Join(s, " | ")
}

// seqRun executes body as the single client thread of a managed execution (virtual clock, every background
// goroutine of the server a managed daemon thread, deadlocks detected exactly). It returns the execution record.
func seqRun(body func()) *vrt.Exec {
	return vrt.RunOnce(&vrt.Config{Bound: 0, StepCap: 2000000, NoRecord: true}, nil, body)
}

// rigBatch runs each(r, i) for i = 0..n-1 (only those for which want(i) holds) as the single client thread of
// managed executions, many items per execution on one shared server (building a server costs milliseconds: hydra
// allocates three 100000-slot channels). Every item must use its own swamp name and should destroy it at the end.
// The virtual clock restarts for every item. If an item blocks forever, panics or hits the step horizon, the
// execution record is returned for that item and the batch continues with the next item on a fresh server.
func rigBatch(n int, want func(i int) bool, each func(r *rigT, i int)) map[int]*vrt.Exec {
	bad := map[int]*vrt.Exec{}
	const perExec = 400
	i := 0
	for i < n {
		cur := -1
		x := vrt.RunOnce(&vrt.Config{Bound: 0, StepCap: 40000000, NoRecord: true}, nil, func() {
			r := newRig(true)
			for c := 0; i < n && c < perExec; i++ {
				if want != nil && !want(i) {
					continue
				}
				cur = i
				c++
				vrt.SetClock(0)
				each(r, i)
				vrt.Drain() // listeners of swamps the item destroyed finish and stop their tickers
			}
			cur = -1
		})
		if cur >= 0 { // the execution ended inside item cur
			bad[cur] = x
			i = cur + 1
		}
	}
	return bad
}

func (r *rigT) destroy(swamp string) {
	r.gw.Destroy(bg, &hydrapb.DestroyRequest{IslandID: 1, SwampName: swamp})
}

// flush writes the swamp's pending records to its file (the call the write-interval listener makes).
func (r *rigT) flush(swampName string) {
	h := r.z.GetHydra()
	for _, n := range h.ListActiveSwamps() {
		if n == swampName {
			if s, err := h.SummonSwamp(bg, 1, name.Load(swampName)); err == nil {
				s.WriteTreasuresToFilesystem()
			}
		}
	}
}
