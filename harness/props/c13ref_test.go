package props

import (
	"bytes"
	"encoding/binary"
	"fmt"
	"math"
	"strconv"
	"strings"
)

// Reference document model for C13: an independent msgpack reader (no third-party codec), an ordered document
// tree whose leaves are the exact encoded bytes, and the documented semantics of the eight patch operations and
// the eight condition operators (proto/hydraide.proto PatchOp / PatchCondition, docs/features/structural-msgpack-patch.md,
// package comments of msgpackpatch). Where the documentation leaves a case open the reference marks the result
// "unspecified" and the harness accepts either behaviour.

type rkind int

const (
	rLeaf rkind = iota
	rMap
	rArr
)

type rnum struct {
	class   int // 1 int, 2 uint, 3 float
	code    byte
	anyCode bool // the encoding width is free (fix-int target)
	i       int64
	u       uint64
	f       float64
	f32     bool
	loose   bool // value not determined (overflow of the target width)
}

type rnode struct {
	k     rkind
	raw   []byte
	keys  []string
	vals  []*rnode
	items []*rnode
	num   *rnum // expected numeric leaf (result of INC)
}

var errRef = fmt.Errorf("malformed")

func be(b []byte) int {
	n := 0
	for _, x := range b {
		n = n<<8 | int(x)
	}
	return n
}

// rparse reads exactly one msgpack value from b; returns the node, the number of bytes used, whether a non-string
// map key was met anywhere.
func rparse(b []byte) (*rnode, int, bool, error) {
	if len(b) == 0 {
		return nil, 0, false, errRef
	}
	c := b[0]
	need := func(n int) bool { return len(b) >= n }
	leaf := func(n int) (*rnode, int, bool, error) {
		if n < 0 || !need(n) {
			return nil, 0, false, errRef
		}
		return &rnode{k: rLeaf, raw: b[:n:n]}, n, false, nil
	}
	hdr := func(h int) (int, bool) { // length stored in h-1 bytes after the code
		if !need(h) {
			return 0, false
		}
		return be(b[1:h]), true
	}
	container := func(h, n int, isMap bool) (*rnode, int, bool, error) {
		pos := h
		nd := &rnode{k: rArr}
		if isMap {
			nd.k = rMap
		}
		nonStr := false
		for i := 0; i < n; i++ {
			if isMap {
				if pos >= len(b) {
					return nil, 0, false, errRef
				}
				kc := b[pos]
				kn, used, ns, err := rparse(b[pos:])
				if err != nil {
					return nil, 0, false, err
				}
				nonStr = nonStr || ns
				isStr := kc >= 0xa0 && kc <= 0xbf || kc == 0xd9 || kc == 0xda || kc == 0xdb
				if !isStr {
					nonStr = true
					nd.keys = append(nd.keys, "\x00nonstr:"+string(kn.raw))
				} else {
					nd.keys = append(nd.keys, string(rstrPayload(kn.raw)))
				}
				pos += used
			}
			v, used, ns, err := rparse(b[pos:])
			if err != nil {
				return nil, 0, false, err
			}
			nonStr = nonStr || ns
			pos += used
			if isMap {
				nd.vals = append(nd.vals, v)
			} else {
				nd.items = append(nd.items, v)
			}
		}
		return nd, pos, nonStr, nil
	}
	switch {
	case c <= 0x7f, c >= 0xe0, c == 0xc0, c == 0xc2, c == 0xc3:
		return leaf(1)
	case c >= 0xa0 && c <= 0xbf:
		return leaf(1 + int(c&0x1f))
	case c >= 0x90 && c <= 0x9f:
		return container(1, int(c&0x0f), false)
	case c >= 0x80 && c <= 0x8f:
		return container(1, int(c&0x0f), true)
	}
	switch c {
	case 0xc4, 0xd9:
		if n, ok := hdr(2); ok {
			return leaf(2 + n)
		}
	case 0xc5, 0xda:
		if n, ok := hdr(3); ok {
			return leaf(3 + n)
		}
	case 0xc6, 0xdb:
		if n, ok := hdr(5); ok {
			return leaf(5 + n)
		}
	case 0xc7:
		if n, ok := hdr(2); ok {
			return leaf(3 + n)
		}
	case 0xc8:
		if n, ok := hdr(3); ok {
			return leaf(4 + n)
		}
	case 0xc9:
		if n, ok := hdr(5); ok {
			return leaf(6 + n)
		}
	case 0xca, 0xce, 0xd2:
		return leaf(5)
	case 0xcb, 0xcf, 0xd3:
		return leaf(9)
	case 0xcc, 0xd0:
		return leaf(2)
	case 0xcd, 0xd1:
		return leaf(3)
	case 0xd4:
		return leaf(3)
	case 0xd5:
		return leaf(4)
	case 0xd6:
		return leaf(6)
	case 0xd7:
		return leaf(10)
	case 0xd8:
		return leaf(18)
	case 0xdc:
		if n, ok := hdr(3); ok {
			return container(3, n, false)
		}
	case 0xdd:
		if n, ok := hdr(5); ok {
			return container(5, n, false)
		}
	case 0xde:
		if n, ok := hdr(3); ok {
			return container(3, n, true)
		}
	case 0xdf:
		if n, ok := hdr(5); ok {
			return container(5, n, true)
		}
	}
	return nil, 0, false, errRef
}

func rstrPayload(raw []byte) []byte {
	switch c := raw[0]; {
	case c >= 0xa0 && c <= 0xbf:
		return raw[1:]
	case c == 0xd9 || c == 0xc4:
		return raw[2:]
	case c == 0xda || c == 0xc5:
		return raw[3:]
	default:
		return raw[5:]
	}
}

// rwhole parses b as exactly one value with no trailing bytes.
func rwhole(b []byte) (*rnode, bool, error) {
	n, used, ns, err := rparse(b)
	if err != nil {
		return nil, false, err
	}
	if used != len(b) {
		return nil, false, errRef
	}
	return n, ns, nil
}

func (n *rnode) clone() *rnode {
	c := &rnode{k: n.k, raw: n.raw, num: n.num}
	c.keys = append([]string(nil), n.keys...)
	for _, v := range n.vals {
		c.vals = append(c.vals, v.clone())
	}
	for _, v := range n.items {
		c.items = append(c.items, v.clone())
	}
	return c
}

func (n *rnode) String() string {
	switch n.k {
	case rLeaf:
		if n.num != nil {
			return fmt.Sprintf("num(class%d code%02x any=%v i=%d u=%d f=%v loose=%v)", n.num.class, n.num.code, n.num.anyCode, n.num.i, n.num.u, n.num.f, n.num.loose)
		}
		return fmt.Sprintf("%x", n.raw)
	case rMap:
		var p []string
		for i, k := range n.keys {
			p = append(p, fmt.Sprintf("%q:%s", k, n.vals[i]))
		}
		return "{" + strings.Join(p, ",") + "}"
	}
	var p []string
	for _, v := range n.items {
		p = append(p, v.String())
	}
	return "[" + strings.Join(p, ",") + "]"
}

// rencode serialises a document (smallest container headers, keys as str) — only used to compare container
// elements for REMOVE_VAL and to feed chained documents back.
func rnumClass(code byte) int {
	switch {
	case code == 0xca || code == 0xcb:
		return 3
	case code >= 0xd0 && code <= 0xd3:
		return 1
	case code >= 0xcc && code <= 0xcf:
		return 2
	case code <= 0x7f:
		return 2
	case code >= 0xe0:
		return 1
	}
	return 0
}

func rnumRead(raw []byte) (class int, i int64, u uint64, f float64) {
	c := raw[0]
	class = rnumClass(c)
	switch {
	case c <= 0x7f:
		u = uint64(c)
	case c >= 0xe0:
		i = int64(int8(c))
	case c == 0xcc:
		u = uint64(raw[1])
	case c == 0xcd:
		u = uint64(binary.BigEndian.Uint16(raw[1:]))
	case c == 0xce:
		u = uint64(binary.BigEndian.Uint32(raw[1:]))
	case c == 0xcf:
		u = binary.BigEndian.Uint64(raw[1:])
	case c == 0xd0:
		i = int64(int8(raw[1]))
	case c == 0xd1:
		i = int64(int16(binary.BigEndian.Uint16(raw[1:])))
	case c == 0xd2:
		i = int64(int32(binary.BigEndian.Uint32(raw[1:])))
	case c == 0xd3:
		i = int64(binary.BigEndian.Uint64(raw[1:]))
	case c == 0xca:
		f = float64(math.Float32frombits(binary.BigEndian.Uint32(raw[1:])))
	case c == 0xcb:
		f = math.Float64frombits(binary.BigEndian.Uint64(raw[1:]))
	}
	return
}

// ---------- paths ----------

type rseg struct {
	kind  int // 0 field, 1 index, 2 append
	field string
	index int
}

func rpath(s string) ([]rseg, bool) {
	if s == "" {
		return nil, false
	}
	var out []rseg
	for _, part := range strings.Split(s, ".") {
		if part == "" || part[0] == '#' {
			return nil, false
		}
		br := strings.IndexByte(part, '[')
		name := part
		rest := ""
		if br >= 0 {
			name, rest = part[:br], part[br:]
		}
		if name == "" || strings.ContainsAny(name, "[]") {
			return nil, false
		}
		out = append(out, rseg{kind: 0, field: name})
		for rest != "" {
			if rest[0] != '[' {
				return nil, false
			}
			e := strings.IndexByte(rest, ']')
			if e < 0 {
				return nil, false
			}
			in := rest[1:e]
			if in == "" {
				out = append(out, rseg{kind: 2})
			} else {
				n, err := strconv.Atoi(in)
				if err != nil {
					return nil, false
				}
				out = append(out, rseg{kind: 1, index: n})
			}
			rest = rest[e+1:]
		}
	}
	return out, true
}

type rcursor struct {
	parent    *rnode
	target    *rnode
	idx       int
	missingAt int // -1: whole path resolved (or append marker)
}

// rresolve walks the path. Error classes: "type" (field on non-map, index/[] on non-array), "path" (index out of
// range, [] not last).
func rresolve(root *rnode, segs []rseg) (*rcursor, string) {
	cur := root
	for i, s := range segs {
		last := i == len(segs)-1
		switch s.kind {
		case 0:
			if cur.k != rMap {
				return nil, "type"
			}
			idx := -1
			for j, k := range cur.keys {
				if k == s.field {
					idx = j
					break
				}
			}
			if idx < 0 {
				return &rcursor{parent: cur, idx: -1, missingAt: i}, ""
			}
			if last {
				return &rcursor{parent: cur, target: cur.vals[idx], idx: idx, missingAt: -1}, ""
			}
			cur = cur.vals[idx]
		case 1:
			if cur.k != rArr {
				return nil, "type"
			}
			w := s.index
			if w < 0 {
				w += len(cur.items)
			}
			if w < 0 || w >= len(cur.items) {
				return nil, "path"
			}
			if last {
				return &rcursor{parent: cur, target: cur.items[w], idx: w, missingAt: -1}, ""
			}
			cur = cur.items[w]
		case 2:
			if !last {
				return nil, "path"
			}
			if cur.k != rArr {
				return nil, "type"
			}
			return &rcursor{parent: cur, idx: -1, missingAt: -1}, ""
		}
	}
	return nil, "path"
}

// rcreateChain creates the missing maps for segs[from:len-1] below parent (all must be fields) and returns the map
// that will hold the final field.
func rcreateChain(parent *rnode, segs []rseg, from, to int) (*rnode, string) {
	for i := from; i < to; i++ {
		if segs[i].kind != 0 {
			return nil, "path"
		}
		m := &rnode{k: rMap}
		parent.keys = append(parent.keys, segs[i].field)
		parent.vals = append(parent.vals, m)
		parent = m
	}
	return parent, ""
}

type rop struct {
	kind  int // 0 SET 1 DELETE 2 INC 3 APPEND 4 PREPEND 5 REMOVE_AT 6 REMOVE_VAL 7 MERGE
	path  string
	value []byte
}

var ropNames = []string{"SET", "DELETE", "INC", "APPEND", "PREPEND", "REMOVE_AT", "REMOVE_VAL", "MERGE"}

func (o rop) String() string { return fmt.Sprintf("%s(%q,%x)", ropNames[o.kind], o.path, o.value) }

// rapply applies one op to doc (in place). Returns the error class ("" = success) and whether the outcome is
// unspecified by the documentation (the harness then accepts success or failure).
func rapply(doc *rnode, o rop) (errc string, unspec bool) {
	segs, ok := rpath(o.path)
	if !ok {
		return "path", false
	}
	needVal := o.kind != 1 && o.kind != 5
	var val *rnode
	if needVal {
		if len(o.value) == 0 {
			return "invalid-op", false
		}
		v, _, err := rwhole(o.value)
		if err != nil {
			// a malformed value: the only documented requirement is that a success leaves a well-formed body
			return "msgpack", true
		}
		val = v
	}
	final := segs[len(segs)-1]
	switch o.kind {
	case 0: // SET
		c, e := rresolve(doc, segs)
		if e != "" {
			return e, false
		}
		if c.target != nil {
			*c.target = *val.clone()
			return "", false
		}
		if final.kind != 0 {
			return "path", false
		}
		p, e := rcreateChain(c.parent, segs, c.missingAt, len(segs)-1)
		if e != "" {
			return e, false
		}
		if p.k != rMap {
			return "type", false
		}
		p.keys = append(p.keys, final.field)
		p.vals = append(p.vals, val.clone())
		return "", false
	case 1: // DELETE
		c, e := rresolve(doc, segs)
		if e != "" {
			return e, false
		}
		if c.target == nil {
			if final.kind == 2 {
				return "path", false
			}
			return "", false
		}
		if final.kind == 0 {
			c.parent.keys = append(c.parent.keys[:c.idx:c.idx], c.parent.keys[c.idx+1:]...)
			c.parent.vals = append(c.parent.vals[:c.idx:c.idx], c.parent.vals[c.idx+1:]...)
		} else {
			c.parent.items = append(c.parent.items[:c.idx:c.idx], c.parent.items[c.idx+1:]...)
		}
		return "", false
	case 2: // INC
		if val.k != rLeaf || rnumClass(val.raw[0]) == 0 {
			return "type", false
		}
		dc, di, du, df := rnumRead(val.raw)
		c, e := rresolve(doc, segs)
		if e != "" {
			return e, false
		}
		if c.target != nil {
			if c.target.k != rLeaf {
				return "type", false
			}
			raw := c.target.raw
			if c.target.num != nil {
				// chained INC on an expected-number placeholder is not generated by the harness
				return "type", true
			}
			tc, ti, tu, tf := rnumRead(raw)
			if tc == 0 || tc != dc {
				return "type", false
			}
			code := raw[0]
			n := &rnum{class: tc, code: code}
			switch tc {
			case 1:
				s := ti + di
				if (di > 0 && s < ti) || (di < 0 && s > ti) {
					n.loose = true
				}
				n.i = s
				lo, hi := int64(math.MinInt64), int64(math.MaxInt64)
				switch code {
				case 0xd0:
					lo, hi = math.MinInt8, math.MaxInt8
				case 0xd1:
					lo, hi = math.MinInt16, math.MaxInt16
				case 0xd2:
					lo, hi = math.MinInt32, math.MaxInt32
				case 0xd3:
				default:
					n.anyCode = true
				}
				if s < lo || s > hi {
					n.loose = true
				}
			case 2:
				s := tu + du
				if s < tu {
					n.loose = true
				}
				n.u = s
				hi := uint64(math.MaxUint64)
				switch code {
				case 0xcc:
					hi = math.MaxUint8
				case 0xcd:
					hi = math.MaxUint16
				case 0xce:
					hi = math.MaxUint32
				case 0xcf:
				default:
					n.anyCode = true
				}
				if s > hi {
					n.loose = true
				}
			case 3:
				n.f = tf + df
				if code == 0xca {
					n.f32 = true
					n.f = float64(float32(n.f))
				}
			}
			*c.target = rnode{k: rLeaf, num: n}
			return "", false
		}
		if final.kind != 0 {
			return "path", false
		}
		p, e := rcreateChain(c.parent, segs, c.missingAt, len(segs)-1)
		if e != "" {
			return e, false
		}
		if p.k != rMap {
			return "type", false
		}
		p.keys = append(p.keys, final.field)
		p.vals = append(p.vals, val.clone())
		return "", false
	case 3, 4: // APPEND / PREPEND
		if final.kind != 2 {
			return "path", false
		}
		ins := func(a *rnode) {
			if o.kind == 4 {
				a.items = append([]*rnode{val.clone()}, a.items...)
			} else {
				a.items = append(a.items, val.clone())
			}
		}
		c, e := rresolve(doc, segs)
		if e != "" {
			return e, false
		}
		if c.missingAt < 0 {
			ins(c.parent)
			return "", false
		}
		// something on the way to the array is missing: create maps down to the array field, then the array
		if len(segs) < 2 {
			return "path", false
		}
		arrIdx := len(segs) - 2
		p, e := rcreateChain(c.parent, segs, c.missingAt, arrIdx)
		if e != "" {
			return e, false
		}
		if segs[arrIdx].kind != 0 {
			return "path", false
		}
		if p.k != rMap {
			return "type", false
		}
		p.keys = append(p.keys, segs[arrIdx].field)
		p.vals = append(p.vals, &rnode{k: rArr, items: []*rnode{val.clone()}})
		return "", false
	case 5: // REMOVE_AT
		if final.kind != 1 {
			return "path", false
		}
		c, e := rresolve(doc, segs)
		if e != "" {
			return e, false
		}
		if c.target == nil {
			return "path", false
		}
		c.parent.items = append(c.parent.items[:c.idx:c.idx], c.parent.items[c.idx+1:]...)
		return "", false
	case 6: // REMOVE_VAL
		c, e := rresolve(doc, segs)
		if e != "" {
			return e, false
		}
		if c.target == nil {
			if final.kind == 2 {
				return "path", true
			}
			return "", false
		}
		if c.target.k != rArr {
			return "type", false
		}
		for i, it := range c.target.items {
			if it.num != nil {
				return "", true // comparing against a freshly incremented element: not modelled
			}
			if rsame(val, it) == "" {
				c.target.items = append(c.target.items[:i:i], c.target.items[i+1:]...)
				return "", false
			}
		}
		return "", false
	case 7: // MERGE
		if val.k != rMap {
			return "type", false
		}
		for _, k := range val.keys {
			if strings.HasPrefix(k, "\x00nonstr:") {
				return "nonstr", false
			}
		}
		merge := func(t *rnode) {
			for i, k := range val.keys {
				at := -1
				for j, tk := range t.keys {
					if tk == k {
						at = j
						break
					}
				}
				if at >= 0 {
					t.vals[at] = val.vals[i].clone()
				} else {
					t.keys = append(t.keys, k)
					t.vals = append(t.vals, val.vals[i].clone())
				}
			}
		}
		c, e := rresolve(doc, segs)
		if e != "" {
			return e, false
		}
		if c.target != nil {
			if c.target.k != rMap {
				return "type", false
			}
			merge(c.target)
			return "", false
		}
		if final.kind != 0 {
			return "path", false
		}
		p, e := rcreateChain(c.parent, segs, c.missingAt, len(segs)-1)
		if e != "" {
			return e, false
		}
		if p.k != rMap {
			return "type", false
		}
		t := &rnode{k: rMap}
		merge(t)
		p.keys = append(p.keys, final.field)
		p.vals = append(p.vals, t)
		return "", false
	}
	return "invalid-op", false
}

// rsame compares an expected document with an observed one: same shape, same key order, leaves byte-identical
// (an expected INC result is compared by class, type code and value). Returns "" or a description of the
// first difference.
func rsame(exp, got *rnode) string {
	if exp.k != got.k {
		return fmt.Sprintf("kind differs: expected %s, got %s", exp, got)
	}
	switch exp.k {
	case rLeaf:
		if exp.num != nil {
			n := exp.num
			gc, gi, gu, gf := rnumRead(got.raw)
			if gc != n.class {
				return fmt.Sprintf("numeric class changed: expected class %d, got leaf %x", n.class, got.raw)
			}
			if !n.anyCode && got.raw[0] != n.code {
				return fmt.Sprintf("numeric type code changed: expected %02x, got leaf %x", n.code, got.raw)
			}
			if n.loose {
				return ""
			}
			switch n.class {
			case 1:
				if gi != n.i {
					return fmt.Sprintf("INC result %d, expected %d", gi, n.i)
				}
			case 2:
				if gu != n.u {
					return fmt.Sprintf("INC result %d, expected %d", gu, n.u)
				}
			case 3:
				if !(gf == n.f || (math.IsNaN(gf) && math.IsNaN(n.f))) {
					return fmt.Sprintf("INC result %v, expected %v", gf, n.f)
				}
			}
			return ""
		}
		if got.num != nil {
			return "placeholder"
		}
		if !bytes.Equal(exp.raw, got.raw) {
			return fmt.Sprintf("leaf bytes differ: expected %x, got %x", exp.raw, got.raw)
		}
	case rMap:
		if len(exp.keys) != len(got.keys) {
			return fmt.Sprintf("map size differs: expected %s, got %s", exp, got)
		}
		for i := range exp.keys {
			if exp.keys[i] != got.keys[i] {
				return fmt.Sprintf("key #%d differs: expected %q, got %q", i, exp.keys[i], got.keys[i])
			}
			if d := rsame(exp.vals[i], got.vals[i]); d != "" {
				return fmt.Sprintf("%s: %s", exp.keys[i], d)
			}
		}
	case rArr:
		if len(exp.items) != len(got.items) {
			return fmt.Sprintf("array length differs: expected %s, got %s", exp, got)
		}
		for i := range exp.items {
			if d := rsame(exp.items[i], got.items[i]); d != "" {
				return fmt.Sprintf("[%d]: %s", i, d)
			}
		}
	}
	return ""
}

// ---------- conditions ----------

type rcond struct {
	path string
	op   int // 0 EQ 1 NE 2 GT 3 GE 4 LT 5 LE 6 EXISTS 7 NOT_EXISTS
	thr  []byte
}

var rcondNames = []string{"EQUAL", "NOT_EQUAL", "GREATER_THAN", "GREATER_THAN_OR_EQUAL", "LESS_THAN", "LESS_THAN_OR_EQUAL", "EXISTS", "NOT_EXISTS"}

func (c rcond) String() string { return fmt.Sprintf("%s(%q,%x)", rcondNames[c.op], c.path, c.thr) }

// rcondEval: outcome "met", "notmet", or an error class; unspec when the documentation leaves it open.
func rcondEval(doc *rnode, c rcond) (string, bool) {
	segs, ok := rpath(c.path)
	if !ok {
		return "path", false
	}
	cur, e := rresolve(doc, segs)
	if e == "path" {
		// an out-of-range index under EXISTS / NOT_EXISTS: error or "not there" — left open
		return "path", c.op >= 6
	}
	exists := e == "" && cur.target != nil && cur.target.k == rLeaf
	if c.op == 6 {
		if exists {
			return "met", false
		}
		return "notmet", false
	}
	if c.op == 7 {
		if exists {
			return "notmet", false
		}
		return "met", false
	}
	if e != "" {
		return e, false
	}
	if !exists {
		return "notmet", false
	}
	if len(c.thr) == 0 {
		return "msgpack", false
	}
	thr, _, err := rwhole(c.thr)
	if err != nil {
		return "msgpack", true
	}
	a, b := cur.target.raw, thr
	ac := rnumClass(a[0])
	bc := 0
	if b.k == rLeaf {
		bc = rnumClass(b.raw[0])
	}
	cmp, unordered := 0, false
	switch {
	case ac != 0 || bc != 0:
		if ac != bc {
			return "type", false
		}
		_, ai, au, af := rnumRead(a)
		_, bi, bu, bf := rnumRead(b.raw)
		switch ac {
		case 1:
			cmp = cmpI(ai < bi, ai > bi)
		case 2:
			cmp = cmpI(au < bu, au > bu)
		case 3:
			if math.IsNaN(af) || math.IsNaN(bf) {
				unordered = true
			}
			cmp = cmpI(af < bf, af > bf)
		}
	case b.k != rLeaf:
		return "type", false
	default:
		ka, kb := rleafKind(a), rleafKind(b.raw)
		switch {
		case ka == "str" && kb == "str", ka == "bin" && kb == "bin":
			cmp = bytes.Compare(rstrPayload(a), rstrPayload(b.raw))
		case ka == "bool" && kb == "bool":
			cmp = cmpI(a[0] < b.raw[0], a[0] > b.raw[0])
		case ka == "str" || ka == "bin" || ka == "bool":
			return "type", false
		default: // nil / ext: only byte equality is meaningful
			if bytes.Equal(a, b.raw) {
				cmp = 0
			} else {
				return "type", false
			}
		}
	}
	met := false
	switch c.op {
	case 0:
		met = cmp == 0 && !unordered
	case 1:
		met = cmp != 0 || unordered
	case 2:
		met = cmp > 0 && !unordered
	case 3:
		met = cmp >= 0 && !unordered
	case 4:
		met = cmp < 0 && !unordered
	case 5:
		met = cmp <= 0 && !unordered
	}
	if met {
		return "met", false
	}
	return "notmet", false
}

func cmpI(lt, gt bool) int {
	if lt {
		return -1
	}
	if gt {
		return 1
	}
	return 0
}

func rleafKind(raw []byte) string {
	switch c := raw[0]; {
	case c >= 0xa0 && c <= 0xbf, c == 0xd9, c == 0xda, c == 0xdb:
		return "str"
	case c == 0xc4, c == 0xc5, c == 0xc6:
		return "bin"
	case c == 0xc2, c == 0xc3:
		return "bool"
	case c == 0xc0:
		return "nil"
	}
	return "other"
}

// ---------- encoders for building documents and values ----------

func mCat(p ...[]byte) []byte { return bytes.Join(p, nil) }
func mStr(s string) []byte {
	if len(s) < 32 {
		return append([]byte{0xa0 | byte(len(s))}, s...)
	}
	return append([]byte{0xd9, byte(len(s))}, s...)
}
func mStr8(s string) []byte { return append([]byte{0xd9, byte(len(s))}, s...) }
func mBin(b ...byte) []byte { return append([]byte{0xc4, byte(len(b))}, b...) }
func mMap(kv ...[]byte) []byte {
	return mCat(append([][]byte{{0x80 | byte(len(kv)/2)}}, kv...)...)
}
func mMap16(kv ...[]byte) []byte {
	return mCat(append([][]byte{{0xde, 0, byte(len(kv) / 2)}}, kv...)...)
}
func mArr(v ...[]byte) []byte {
	if len(v) < 16 {
		return mCat(append([][]byte{{0x90 | byte(len(v))}}, v...)...)
	}
	return mCat(append([][]byte{{0xdc, byte(len(v) >> 8), byte(len(v))}}, v...)...)
}
func mU8(v uint8) []byte   { return []byte{0xcc, v} }
func mU16(v uint16) []byte { return []byte{0xcd, byte(v >> 8), byte(v)} }
func mU32(v uint32) []byte { return binary.BigEndian.AppendUint32([]byte{0xce}, v) }
func mU64(v uint64) []byte { return binary.BigEndian.AppendUint64([]byte{0xcf}, v) }
func mI8(v int8) []byte    { return []byte{0xd0, byte(v)} }
func mI16(v int16) []byte  { return []byte{0xd1, byte(uint16(v) >> 8), byte(v)} }
func mI32(v int32) []byte  { return binary.BigEndian.AppendUint32([]byte{0xd2}, uint32(v)) }
func mI64(v int64) []byte  { return binary.BigEndian.AppendUint64([]byte{0xd3}, uint64(v)) }
func mF32(v float32) []byte {
	return binary.BigEndian.AppendUint32([]byte{0xca}, math.Float32bits(v))
}
func mF64(v float64) []byte {
	return binary.BigEndian.AppendUint64([]byte{0xcb}, math.Float64bits(v))
}

var (
	mNil   = []byte{0xc0}
	mTrue  = []byte{0xc3}
	mFalse = []byte{0xc2}
	mTime  = []byte{0xd6, 0xff, 0x65, 0x53, 0xf1, 0x00} // timestamp32 extension
)
