package props

import (
	"fmt"
	"os"
	"sort"
	"strings"
	"testing"

	"github.com/hydraide/hydraide/app/vshim/vrt"
	hydrapb "github.com/hydraide/hydraide/sdk/go/hydraidego/v3/hydraidepbgo"
	"github.com/vmihailenco/msgpack/v5"
	"verifharness/kit"
)

// C09 — concurrent writes on a key are linearizable; no lost updates.
// Two or three client threads issue Set / IncrementInt32 / PatchTreasures(INC) / Delete / ShiftByKeys / Get against one
// key of one swamp of the in-process server under the controlled scheduler; every schedule up to the preemption bound
// is executed and the recorded call/return history (plus a final read) is checked for linearizability against the
// sequential key-value model by brute force over all orders that respect real time.

type c09op struct {
	name       string
	start, end int
	resp       string
}

type c09ctx struct {
	rg    *rigT
	swamp string
	clock int
	hist  []*c09op
	logs  *logCap
}

var c09c *c09ctx

// c09run issues one request and returns the coarsened response (sequential status quirks are C06's subject).
func c09run(c *c09ctx, name string) string {
	gw := c.rg.gw
	switch {
	case strings.HasPrefix(name, "Set(a,"):
		var v int32
		fmt.Sscanf(name, "Set(a,%d)", &v)
		resp, err := gw.Set(bg, &hydrapb.SetRequest{Swamps: []*hydrapb.SwampRequest{{IslandID: 1, SwampName: c.swamp, CreateIfNotExist: true, Overwrite: true, KeyValues: []*hydrapb.KeyValuePair{{Key: "a", Int32Val: p(v)}}}}})
		if err != nil || resp == nil || len(resp.Swamps) == 0 || len(resp.Swamps[0].KeysAndStatuses) == 0 {
			return "no-response"
		}
		if resp.Swamps[0].KeysAndStatuses[0].Status == hydrapb.Status_NEW {
			return "NEW"
		}
		return "not-NEW"
	case name == "Inc(a)":
		resp, err := gw.IncrementInt32(bg, &hydrapb.IncrementInt32Request{IslandID: 1, SwampName: c.swamp, Key: "a", IncrementBy: 1})
		if err != nil || resp == nil {
			return "no-response"
		}
		return fmt.Sprintf("v=%d inc=%v", resp.Value, resp.IsIncremented)
	case name == "PatchInc(m)":
		resp, err := gw.PatchTreasures(bg, &hydrapb.PatchTreasuresRequest{IslandID: 1, SwampName: c.swamp, CreateIfNotExist: true, InitialMsgpackOnCreate: mp(map[string]any{"n": 0}),
			Patches: []*hydrapb.TreasurePatch{{Key: "m", Ops: []*hydrapb.PatchOp{{Op: hydrapb.PatchOp_INC, Path: "n", Value: mp(1)}}}}})
		if err != nil || resp == nil || len(resp.Results) == 0 {
			return "no-response"
		}
		return resp.Results[0].Status.String()
	case name == "Delete(a)":
		resp, err := gw.Delete(bg, &hydrapb.DeleteRequest{Swamps: []*hydrapb.DeleteRequest_SwampKeys{{IslandID: 1, SwampName: c.swamp, Keys: []string{"a"}}}})
		if err != nil || resp == nil || len(resp.Responses) == 0 || len(resp.Responses[0].KeyStatuses) == 0 {
			return "no-response"
		}
		return resp.Responses[0].KeyStatuses[0].Status.String()
	case name == "Shift(a)":
		resp, err := gw.ShiftByKeys(bg, &hydrapb.ShiftByKeysRequest{IslandID: 1, SwampName: c.swamp, Keys: []string{"a"}})
		if err != nil || resp == nil {
			return "no-response"
		}
		if len(resp.Treasures) == 0 {
			return "absent"
		}
		return valStr(resp.Treasures[0])
	case name == "Get(a)":
		g, err := gw.Get(bg, &hydrapb.GetRequest{Swamps: []*hydrapb.GetSwamp{{IslandID: 1, SwampName: c.swamp, Keys: []string{"a"}}}})
		if err != nil || g == nil {
			return "no-response"
		}
		if !g.Swamps[0].Treasures[0].IsExist {
			return "absent"
		}
		return valStr(g.Swamps[0].Treasures[0])
	}
	return "?"
}

// c09apply is the sequential model: state of key a ("absent" or "i32:n"), returns (new state, response).
func c09apply(state, name string) (string, string) {
	cur := 0
	present := state != "absent"
	if present {
		fmt.Sscanf(state, "i32:%d", &cur)
	}
	switch {
	case strings.HasPrefix(name, "Set(a,"):
		var v int
		fmt.Sscanf(name, "Set(a,%d)", &v)
		r := "not-NEW"
		if !present {
			r = "NEW"
		}
		return fmt.Sprintf("i32:%d", v), r
	case name == "Inc(a)":
		return fmt.Sprintf("i32:%d", cur+1), fmt.Sprintf("v=%d inc=true", cur+1)
	case name == "Delete(a)":
		if !present {
			return "absent", "NOT_FOUND"
		}
		return "absent", "DELETED"
	case name == "Shift(a)":
		return "absent", state
	case name == "Get(a)":
		return state, state
	}
	return state, "?"
}

// c09linearizable searches a total order of the operations that respects real time (a.end < b.start => a before b)
// and reproduces every response from the initial state.
func c09linearizable(ops []*c09op, initial string) bool {
	n := len(ops)
	used := make([]bool, n)
	var rec func(state string, done int) bool
	rec = func(state string, done int) bool {
		if done == n {
			return true
		}
		for i, o := range ops {
			if used[i] {
				continue
			}
			ok := true
			for j, q := range ops {
				if !used[j] && j != i && q.end < o.start {
					ok = false // q finished before o began, so q must come first
					break
				}
			}
			if !ok {
				continue
			}
			ns, resp := c09apply(state, o.name)
			if resp != o.resp {
				continue
			}
			used[i] = true
			if rec(ns, done+1) {
				return true
			}
			used[i] = false
		}
		return false
	}
	return rec(initial, 0)
}

type c09prog struct {
	conf    string
	initA   bool
	threads [][]string
}

func (p c09prog) String() string {
	return fmt.Sprintf("%s a-present=%v %v", p.conf, p.initA, p.threads)
}

func c09NoPreempt(label string) bool {
	for _, s := range []string{"guard.", "treasure.(*treasure)", "swamp.(*swamp).SaveFunction", "swamp.(*swamp).Increment", "swamp.(*swamp).CreateTreasure", "swamp.(*swamp).deleteHandler", "swamp.(*swamp).DeleteTreasure",
		"CloneAndDeleteTreasuresByKeys", "swamp.(*swamp).PatchFields", "swamp.(*swamp).GetTreasure", "beacon.(*beacon).Get", "beacon.(*beacon).Add", "beacon.(*beacon).Delete", "fileWriterHandler", "server/gateway.Gateway"} {
		if strings.Contains(label, s) {
			return false
		}
	}
	return true
}

func TestC09(t *testing.T) {
	rigSetup()
	logs := &logCap{}
	logs.install()
	r := kit.Start("C09", "exploration")
	defer r.Finish()
	bound := 1
	if !r.Quick() {
		bound = 2
	}
	var progs []c09prog
	for _, conf := range []string{"mem", "dsk", "imm"} {
		progs = append(progs,
			c09prog{conf, false, [][]string{{"Inc(a)"}, {"Inc(a)"}}},
			c09prog{conf, true, [][]string{{"Inc(a)"}, {"Inc(a)"}}},
			c09prog{conf, true, [][]string{{"Inc(a)", "Inc(a)"}, {"Inc(a)"}}},
			c09prog{conf, true, [][]string{{"Set(a,7)"}, {"Inc(a)"}}},
			c09prog{conf, false, [][]string{{"Set(a,7)"}, {"Set(a,8)"}}},
			c09prog{conf, true, [][]string{{"Delete(a)"}, {"Inc(a)"}}},
			c09prog{conf, true, [][]string{{"Shift(a)"}, {"Set(a,7)"}}},
			c09prog{conf, true, [][]string{{"Shift(a)"}, {"Shift(a)"}}},
			c09prog{conf, true, [][]string{{"Set(a,7)", "Get(a)"}, {"Delete(a)"}}},
			c09prog{conf, false, [][]string{{"PatchInc(m)"}, {"PatchInc(m)"}}},
			c09prog{conf, true, [][]string{{"Delete(a)"}, {"Delete(a)"}}},
			c09prog{conf, true, [][]string{{"Delete(a)"}, {"Shift(a)"}}},
		)
	}
	if os.Getenv("VERIF_TIER") == "thorough" {
		for _, conf := range []string{"mem", "imm"} {
			progs = append(progs,
				c09prog{conf, true, [][]string{{"Inc(a)"}, {"Inc(a)"}, {"Inc(a)"}}},
				c09prog{conf, true, [][]string{{"Inc(a)"}, {"Set(a,7)"}, {"Delete(a)"}}},
			)
		}
	}
	var pn []string
	for _, p := range progs {
		pn = append(pn, p.String())
	}
	r.Extra["program_list"] = pn
	r.Extra["programs"] = len(pn)
	r.Extra["preemption_bound"] = bound
	r.Rule = fmt.Sprintf("two (thorough: also three) client threads on key a (PatchInc on a msgpack key m) of one swamp that always keeps one other record, for three configurations (in-memory, persistent with a 1 s write interval, persistent immediate-write); %d programs over {Set, IncrementInt32, PatchTreasures INC, Delete, ShiftByKeys, Get}; every schedule with at most %d preemptions at the scheduling points of the record guard, treasure, swamp save/increment/delete/patch paths, the key beacon and the gateway handlers; the whole in-process server is rebuilt for every execution. Oracle: the recorded call/return history plus a final Get is linearizable against the sequential model (brute force over every order respecting real time; responses coarsened to NEW/not-NEW, value+incremented flag, DELETED/NOT_FOUND, existence+value); for PatchInc the final counter equals the number of acknowledged patches. Non-trivial = executions with at least one preemption", len(progs), bound)
	r.Assumptions = []string{"sequentially consistent memory (scheduling points at synchronisation operations)", "responses are coarsened so that sequential status quirks (C06) cannot appear as non-linearizability", "a request that panics inside the gateway (recovered) is recorded as 'no-response' and makes the history non-linearizable"}
	r.Parallel(16, "TestC09", func() {
		for pi, pr := range progs {
			pr := pr
			var finalBody []byte
			body := func() {
				c := &c09ctx{rg: newRig(true), swamp: pr.conf + "/r/lin", logs: logs}
				c09c = c
				logs.reset()
				kvs := []*hydrapb.KeyValuePair{{Key: "z", Int32Val: p(int32(9))}}
				if pr.initA {
					kvs = append(kvs, &hydrapb.KeyValuePair{Key: "a", Int32Val: p(int32(1))})
				}
				c.rg.gw.Set(bg, &hydrapb.SetRequest{Swamps: []*hydrapb.SwampRequest{{IslandID: 1, SwampName: c.swamp, CreateIfNotExist: true, Overwrite: true, KeyValues: kvs}}})
				if pr.conf != "mem" {
					c.rg.flush(c.swamp)
				}
				vrt.Drain()
				var ths []*vrt.Thread
				for ti, prog := range pr.threads {
					prog := prog
					ths = append(ths, vrt.Go(fmt.Sprintf("T%d", ti), func() {
						for _, on := range prog {
							c.clock++
							o := &c09op{name: on, start: c.clock}
							c.hist = append(c.hist, o)
							o.resp = c09run(c, on)
							c.clock++
							o.end = c.clock
						}
					}))
				}
				for _, th := range ths {
					vrt.Join(th)
				}
				vrt.Quiesce()
				c.clock++
				o := &c09op{name: "Get(a)", start: c.clock}
				o.resp = c09run(c, "Get(a)")
				c.clock++
				o.end = c.clock
				c.hist = append(c.hist, o)
				finalBody = nil
				if g, err := c.rg.gw.Get(bg, &hydrapb.GetRequest{Swamps: []*hydrapb.GetSwamp{{IslandID: 1, SwampName: c.swamp, Keys: []string{"m"}}}}); err == nil && g.Swamps[0].Treasures[0].IsExist {
					finalBody = g.Swamps[0].Treasures[0].BytesVal
				}
			}
			e := &vrt.Explorer{Body: body, Stop: r.OutOfTime}
			e.Shard, e.ShardN = r.Shard()
			e.Cfg = vrt.Config{Bound: bound, Sites: true, NoPreempt: c09NoPreempt, StepCap: 300000, EnvIdle: true}
			e.Check = func(x *vrt.Exec) {
				r.Eval(1)
				cs := map[string]any{"program": pr.String(), "schedule": x.Choices(), "preemptions": x.Cost}
				compute := func(x *vrt.Exec) []vfail {
					c := c09c
					var out []vfail
					if x.Deadlock || x.Horizon {
						r.Count("nonterminating_schedules", 1)
						return out // termination is not this property's subject (C06, C17)
					}
					for _, pn := range x.Panics {
						out = append(out, vfail{"linearizability", "thread-panic", pn})
					}
					var hs []string
					patches := 0
					noresp := false
					for _, o := range c.hist {
						hs = append(hs, fmt.Sprintf("%s[%d-%d]->%s", o.name, o.start, o.end, o.resp))
						if o.name == "PatchInc(m)" && (o.resp == "PATCHED" || o.resp == "CREATED") {
							patches++
						}
						if o.resp == "no-response" {
							noresp = true
						}
					}
					initial := "absent"
					if pr.initA {
						initial = "i32:1"
					}
					var kv []*c09op
					for _, o := range c.hist {
						if o.name != "PatchInc(m)" {
							kv = append(kv, o)
						}
					}
					// the class names the configuration and the kinds of operations that ran concurrently
					var kinds []string
					for _, th := range pr.threads {
						var k []string
						for _, on := range th {
							k = append(k, on[:strings.Index(on, "(")])
						}
						kinds = append(kinds, strings.Join(k, "+"))
					}
					sort.Strings(kinds)
					cls := pr.conf + ":" + strings.Join(kinds, "||") + ":" + lcPreemptedIn(x)
					if noresp {
						out = append(out, vfail{"linearizability", "request-got-no-response:" + cls, fmt.Sprintf("program %s: history %v (a request panicked inside the gateway or failed)", pr, hs)})
					} else if !c09linearizable(kv, initial) {
						d := "history-not-linearizable:" + cls
						inc := 0
						for _, o := range kv {
							if o.name == "Inc(a)" {
								inc++
							}
						}
						if inc == len(kv)-1 {
							d = "lost-increment:" + cls
						}
						out = append(out, vfail{"linearizability", d, fmt.Sprintf("program %s: history %v admits no serial order", pr, hs)})
					}
					if patches > 0 {
						// the stored body must hold n = number of acknowledged patches (whatever integer encoding)
						got := -1
						if len(finalBody) > 2 {
							var m map[string]any
							if err := msgpack.Unmarshal(finalBody[2:], &m); err == nil {
								got = int(toF(m["n"]))
							}
						}
						if got != patches {
							out = append(out, vfail{"linearizability", "lost-patch-increment:" + cls, fmt.Sprintf("program %s: %d patches acknowledged, stored counter n=%d (body %x)", pr, patches, got, finalBody)})
						}
					}
					return out
				}
				vrtReport(r, e.Cfg, body, x, compute, cs)
				if x.Cost > 0 {
					r.Nontrivial(fmt.Sprintf("%d/%v", pi, x.Choices()))
				}
				var rs []string
				for _, o := range c09c.hist {
					rs = append(rs, o.resp)
				}
				r.Outcome(fmt.Sprintf("%d|%v", pi, rs))
			}
			if !r.Quick() {
				e.MaxExecs = lcThoroughExecsPerProgram // reproducible coverage of the thorough tier (see lc_test.go)
			}
			e.Run()
			r.Count("executions", int64(e.Stats.Execs))
			r.SetMax("max_points_per_execution", int64(e.Stats.MaxPoints))
			if os.Getenv("VERIF_DEBUG") != "" {
				fmt.Fprintf(os.Stderr, "prog %s bound %d: execs=%d capped=%v maxpoints=%d\n", pr, bound, e.Stats.Execs, e.Stats.Capped, e.Stats.MaxPoints)
			}
			if e.Stats.Capped {
				r.NotExhaustive(fmt.Sprintf("program %s capped after %d executions", pr, e.Stats.Execs))
			}
			if pi == 1 {
				if sh, _ := r.Shard(); sh == 0 {
					vrt.RunOnce(&vrt.Config{Bound: bound, NoRecord: true, EnvIdle: true}, nil, body)
					var hs []string
					for _, o := range c09c.hist {
						hs = append(hs, fmt.Sprintf("%s[%d-%d]->%s", o.name, o.start, o.end, o.resp))
					}
					r.Sample(map[string]any{"program": pr.String(), "history": hs})
				}
			}
		}
	})
}

func toF(v any) float64 {
	switch x := v.(type) {
	case int8:
		return float64(x)
	case int16:
		return float64(x)
	case int32:
		return float64(x)
	case int64:
		return float64(x)
	case int:
		return float64(x)
	case uint8:
		return float64(x)
	case uint16:
		return float64(x)
	case uint32:
		return float64(x)
	case uint64:
		return float64(x)
	case float32:
		return float64(x)
	case float64:
		return x
	}
	return -1
}
