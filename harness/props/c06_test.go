package props

import (
	"fmt"
	"sort"
	"strings"
	"testing"

	"github.com/hydraide/hydraide/app/vshim/vrt"
	hydrapb "github.com/hydraide/hydraide/sdk/go/hydraidego/v3/hydraidepbgo"
	"google.golang.org/grpc/codes"
	"google.golang.org/grpc/status"
	"verifharness/kit"
)

// C06 — the single-client API behaves like a simple key-value model.
// Breadth-first search over reference-model states; every transition runs the real gateway handler after replaying
// the shortest history on a fresh swamp, and the real response plus a suite of read requests is compared with refkv.

const unspecified = "<unspecified>"

func errStr(err error) string { return "err:" + status.Code(err).String() }

func codeErr(c codes.Code) string { return "err:" + c.String() }

// c06op is one request of the alphabet: how to issue it, and what the model says about it.
type c06op struct {
	name  string
	run   func(r *rigT, swamp string) string
	model func(m *refkv, now int64) string // expected rendering, or unspecified
}

func nowNS(step int) int64 { return vrt.Epoch + int64(step)*1e9 }

type c06val struct {
	kind, val string
	num       float64
	slice     []uint32
	set       func(kv *hydrapb.KeyValuePair)
}

func c06vals() []c06val {
	return []c06val{
		{"i32", "1", 1, nil, func(kv *hydrapb.KeyValuePair) { kv.Int32Val = p(int32(1)) }},
		{"i32", "2", 2, nil, func(kv *hydrapb.KeyValuePair) { kv.Int32Val = p(int32(2)) }},
		{"s", `"x"`, 0, nil, func(kv *hydrapb.KeyValuePair) { kv.StringVal = p("x") }},
	}
}

func c06set(key string, v c06val, meta bool, create, overwrite bool) c06op {
	name := fmt.Sprintf("Set(%s,%s:%s%v,create=%v,overwrite=%v,meta=%v)", key, v.kind, v.val, v.slice, create, overwrite, meta)
	var km *kvMeta
	if meta {
		km = &kvMeta{cAt: 1700000001e9, uAt: 1700000002e9, eAt: 1700000003e9, cBy: "creator", uBy: "updater"}
	}
	return c06op{name,
		func(r *rigT, swamp string) string {
			kv := &hydrapb.KeyValuePair{Key: key}
			v.set(kv)
			if meta {
				kv.CreatedAt, kv.CreatedBy, kv.UpdatedAt, kv.UpdatedBy, kv.ExpiredAt = ts(1700000001), p("creator"), ts(1700000002), p("updater"), ts(1700000003)
			}
			resp, err := r.gw.Set(bg, &hydrapb.SetRequest{Swamps: []*hydrapb.SwampRequest{{IslandID: 1, SwampName: swamp, CreateIfNotExist: create, Overwrite: overwrite, KeyValues: []*hydrapb.KeyValuePair{kv}}}})
			if err != nil {
				return errStr(err)
			}
			var b strings.Builder
			for _, s := range resp.Swamps {
				ec := "-"
				if s.ErrorCode != nil {
					ec = s.ErrorCode.String()
				}
				fmt.Fprintf(&b, "EC=%s [", ec)
				for _, ks := range s.KeysAndStatuses {
					fmt.Fprintf(&b, "%s:%s", ks.Key, ks.Status)
				}
				b.WriteString("]")
			}
			return b.String()
		},
		func(m *refkv, now int64) string {
			if !create && !overwrite {
				return "EC=CanNotBeExecuted []"
			}
			if !create && !m.exists() {
				if m.shell {
					return unspecified
				}
				return "EC=SwampDoesNotExist []"
			}
			pending := false // metadata possibly touched in memory by an un-incremented conditional Increment
			if r0, ok := m.recs[key]; ok {
				pending = r0.metaUnknown
			}
			st := m.set(key, v.kind, v.val, v.num, v.slice, km, create, overwrite)
			if _, stored := m.recs[key]; stored {
				delete(m.ghost, key) // a Set that stored nothing (create=false on an absent key) leaves the hidden record in place
			}
			if st == "NOTHING_CHANGED" && overwrite && (meta || pending) {
				// same value, metadata repeated in the request: UPDATED or NOTHING_CHANGED is not documented
				return fmt.Sprintf("EC=- [%s:", key) + unspecified
			}
			return fmt.Sprintf("EC=- [%s:%s]", key, st)
		}}
}

// mkShell: an operation summoned a swamp that holds no record.
func (m *refkv) mkShell() {
	if !m.exists() {
		m.shell = true
	}
}

type incSpec struct {
	kind string
	by   float64
}

func c06inc(key string, sp incSpec, cond string, condVal float64, meta bool) c06op {
	name := fmt.Sprintf("Inc_%s(%s,%+v,cond=%s%v,meta=%v)", sp.kind, key, sp.by, cond, condVal, meta)
	rel := map[string]hydrapb.Relational_Operator{"==": hydrapb.Relational_EQUAL, ">": hydrapb.Relational_GREATER_THAN, "<=": hydrapb.Relational_LESS_THAN_OR_EQUAL, "!=": hydrapb.Relational_NOT_EQUAL, ">=": hydrapb.Relational_GREATER_THAN_OR_EQUAL, "<": hydrapb.Relational_LESS_THAN}
	var ine, ie *hydrapb.IncrementRequestMetadata
	if meta {
		ine = &hydrapb.IncrementRequestMetadata{CreatedAt: p(true), CreatedBy: p("inc-c"), ExpiredAt: ts(1700000009)}
		ie = &hydrapb.IncrementRequestMetadata{UpdatedAt: p(true), UpdatedBy: p("inc-u")}
	}
	metaStr := func(md *hydrapb.IncrementResponseMetadata) string {
		if md == nil {
			return "meta=nil"
		}
		return fmt.Sprintf("meta=c=%s/%s u=%s/%s e=%s", tsStr(md.CreatedAt), optS(md.CreatedBy), tsStr(md.UpdatedAt), optS(md.UpdatedBy), tsStr(md.ExpiredAt))
	}
	return c06op{name,
		func(r *rigT, swamp string) string {
			switch sp.kind {
			case "i32":
				req := &hydrapb.IncrementInt32Request{IslandID: 1, SwampName: swamp, Key: key, IncrementBy: int32(sp.by), SetIfNotExist: ine, SetIfExist: ie}
				if cond != "" {
					req.Condition = &hydrapb.IncrementInt32Condition{RelationalOperator: rel[cond], Value: int32(condVal)}
				}
				resp, err := r.gw.IncrementInt32(bg, req)
				if err != nil {
					return errStr(err)
				}
				return fmt.Sprintf("v=%v inc=%v %s", resp.Value, resp.IsIncremented, metaStr(resp.Metadata))
			case "i8":
				req := &hydrapb.IncrementInt8Request{IslandID: 1, SwampName: swamp, Key: key, IncrementBy: int32(sp.by), SetIfNotExist: ine, SetIfExist: ie}
				if cond != "" {
					req.Condition = &hydrapb.IncrementInt8Condition{RelationalOperator: rel[cond], Value: int32(condVal)}
				}
				resp, err := r.gw.IncrementInt8(bg, req)
				if err != nil {
					return errStr(err)
				}
				return fmt.Sprintf("v=%v inc=%v %s", resp.Value, resp.IsIncremented, metaStr(resp.Metadata))
			case "u64":
				req := &hydrapb.IncrementUint64Request{IslandID: 1, SwampName: swamp, Key: key, IncrementBy: uint64(sp.by), SetIfNotExist: ine, SetIfExist: ie}
				if cond != "" {
					req.Condition = &hydrapb.IncrementUint64Condition{RelationalOperator: rel[cond], Value: uint64(condVal)}
				}
				resp, err := r.gw.IncrementUint64(bg, req)
				if err != nil {
					return errStr(err)
				}
				return fmt.Sprintf("v=%v inc=%v %s", resp.Value, resp.IsIncremented, metaStr(resp.Metadata))
			case "f64":
				req := &hydrapb.IncrementFloat64Request{IslandID: 1, SwampName: swamp, Key: key, IncrementBy: sp.by, SetIfNotExist: ine, SetIfExist: ie}
				if cond != "" {
					req.Condition = &hydrapb.IncrementFloat64Condition{RelationalOperator: rel[cond], Value: condVal}
				}
				resp, err := r.gw.IncrementFloat64(bg, req)
				if err != nil {
					return errStr(err)
				}
				return fmt.Sprintf("v=%v inc=%v %s", resp.Value, resp.IsIncremented, metaStr(resp.Metadata))
			}
			return "?"
		},
		func(m *refkv, now int64) string {
			r, ok := m.recs[key]
			if ok && r.kind != "void" && r.kind != sp.kind {
				return codeErr(codes.InvalidArgument)
			}
			cur := 0.0
			fresh := !ok || r.kind == "void"
			if !fresh {
				cur = r.num
			}
			met := true
			switch cond {
			case "==":
				met = cur == condVal
			case "!=":
				met = cur != condVal
			case ">":
				met = cur > condVal
			case ">=":
				met = cur >= condVal
			case "<":
				met = cur < condVal
			case "<=":
				met = cur <= condVal
			}
			if !met {
				if !ok {
					m.mkShell()
					m.ghost[key] = sp.kind
				}
				if ok && meta {
					r.metaUnknown = true // unspecified: whether metadata of an un-incremented record is touched
				}
				if ok && r.kind == "void" {
					return unspecified // unspecified: whether a void record becomes a typed 0 when the condition fails
				}
				if meta || (ok && r.metaUnknown) {
					return fmt.Sprintf("v=%v inc=false", cur) + " " + unspecified
				}
				md := "meta=nil"
				if ok {
					md = modelMeta(r)
				}
				return fmt.Sprintf("v=%v inc=false %s", cur, md)
			}
			if !ok {
				r = &kvRec{}
				m.recs[key] = r
				m.shell = false
			}
			r.kind, r.num, r.slice = sp.kind, cur+sp.by, nil
			r.val = fmt.Sprint(r.num)
			if meta {
				if fresh {
					r.cAt, r.cBy, r.eAt = now, "inc-c", 1700000009e9
				} else {
					r.uAt, r.uBy = now, "inc-u"
				}
			}
			if r.metaUnknown {
				return fmt.Sprintf("v=%v inc=true", r.num) + " " + unspecified
			}
			return fmt.Sprintf("v=%v inc=true %s", r.num, modelMeta(r))
		}}
}

func modelMeta(r *kvRec) string {
	if r.cAt == 0 && r.uAt == 0 && r.eAt == 0 && r.cBy == "" && r.uBy == "" {
		return "meta=nil"
	}
	return fmt.Sprintf("meta=c=%s/%s u=%s/%s e=%s", nsStr(r.cAt), byStr(r.cBy), nsStr(r.uAt), byStr(r.uBy), nsStr(r.eAt))
}

func c06ops() []c06op {
	var ops []c06op
	vals := c06vals()
	for _, key := range []string{"a", "b"} {
		key := key
		for _, v := range vals {
			ops = append(ops, c06set(key, v, false, true, true))
		}
		ops = append(ops, c06set(key, vals[0], true, true, true), c06set(key, vals[0], false, true, false), c06set(key, vals[0], false, false, true), c06set(key, vals[1], false, false, true))
		if key == "a" {
			ops = append(ops, c06set(key, vals[0], false, false, false))
		}
		ops = append(ops, c06op{"Delete(" + key + ")",
			func(r *rigT, s string) string {
				resp, err := r.gw.Delete(bg, &hydrapb.DeleteRequest{Swamps: []*hydrapb.DeleteRequest_SwampKeys{{IslandID: 1, SwampName: s, Keys: []string{key}}}})
				if err != nil {
					return errStr(err)
				}
				var b strings.Builder
				for _, sr := range resp.Responses {
					ec := "-"
					if sr.ErrorCode != nil {
						ec = sr.ErrorCode.String()
					}
					fmt.Fprintf(&b, "EC=%s [", ec)
					for _, ks := range sr.KeyStatuses {
						fmt.Fprintf(&b, "%s:%s", ks.Key, ks.Status)
					}
					b.WriteString("]")
				}
				return b.String()
			},
			func(m *refkv, now int64) string {
				if !m.exists() {
					if m.shell {
						return unspecified
					}
					return "EC=SwampDoesNotExist []"
				}
				return fmt.Sprintf("EC=- [%s:%s]", key, m.delete(key))
			}})
		ops = append(ops,
			c06inc(key, incSpec{"i32", 1}, "", 0, false),
			c06inc(key, incSpec{"i32", 1}, "", 0, true),
			c06inc(key, incSpec{"i32", 1}, "==", 1, false),
			c06inc(key, incSpec{"i32", -1}, ">", 5, true),
			c06inc(key, incSpec{"i32", 1}, "<=", 1, false),
			c06inc(key, incSpec{"i32", 1}, "!=", 2, false),
			c06inc(key, incSpec{"i32", 1}, ">=", 1, false),
			c06inc(key, incSpec{"i32", 1}, "<", 1, false),
		)
		if key == "a" {
			ops = append(ops,
				c06inc(key, incSpec{"i8", 1}, "", 0, false), c06inc(key, incSpec{"i8", 1}, ">", 0, false),
				c06inc(key, incSpec{"u64", 1}, "", 0, false), c06inc(key, incSpec{"u64", 1}, "==", 0, false),
				c06inc(key, incSpec{"f64", 0.5}, "", 0, false), c06inc(key, incSpec{"f64", 0.5}, "<", 0.5, false))
		}
		for _, vs := range [][]uint32{{7}, {7, 9}} {
			vs := vs
			ops = append(ops, c06op{fmt.Sprintf("SlicePush(%s,%v)", key, vs),
				func(r *rigT, s string) string {
					_, err := r.gw.Uint32SlicePush(bg, &hydrapb.AddToUint32SlicePushRequest{IslandID: 1, SwampName: s, KeySlicePairs: []*hydrapb.KeySlicePair{{Key: key, Values: vs}}})
					if err != nil {
						return errStr(err)
					}
					return "ok"
				},
				func(m *refkv, now int64) string {
					r, ok := m.recs[key]
					if ok && r.kind != "sl" && r.kind != "void" {
						return unspecified // pushing to a key holding another type: not documented
					}
					if !ok {
						r = &kvRec{}
						m.recs[key] = r
						m.shell = false
					}
					r.kind, r.val = "sl", ""
					r.slice = dedupe(r.slice, vs)
					return "ok"
				}},
				c06op{fmt.Sprintf("SliceDelete(%s,%v)", key, vs),
					func(r *rigT, s string) string {
						_, err := r.gw.Uint32SliceDelete(bg, &hydrapb.Uint32SliceDeleteRequest{IslandID: 1, SwampName: s, KeySlicePairs: []*hydrapb.KeySlicePair{{Key: key, Values: vs}}})
						if err != nil {
							return errStr(err)
						}
						return "ok"
					},
					func(m *refkv, now int64) string {
						r, ok := m.recs[key]
						if !ok {
							m.mkShell()
							return "ok"
						}
						if r.kind != "sl" {
							return codeErr(codes.InvalidArgument) // documented: error on type mismatch, the key is preserved
						}
						var keep []uint32
						for _, x := range r.slice {
							del := false
							for _, v := range vs {
								del = del || v == x
							}
							if !del {
								keep = append(keep, x)
							}
						}
						r.slice = keep
						if len(keep) == 0 {
							m.delete(key) // documented garbage collection of emptied sets (and of the emptied swamp)
						}
						return "ok"
					}})
		}
		ops = append(ops,
			c06op{"SliceSize(" + key + ")",
				func(r *rigT, s string) string {
					resp, err := r.gw.Uint32SliceSize(bg, &hydrapb.Uint32SliceSizeRequest{IslandID: 1, SwampName: s, Key: key})
					if err != nil {
						return errStr(err)
					}
					return fmt.Sprint("size=", resp.Size)
				},
				func(m *refkv, now int64) string {
					r, ok := m.recs[key]
					if !ok {
						m.mkShell()
						return codeErr(codes.InvalidArgument)
					}
					if r.kind != "sl" {
						return codeErr(codes.FailedPrecondition)
					}
					return fmt.Sprint("size=", len(r.slice))
				}},
			c06op{"SliceHas(" + key + ",7)",
				func(r *rigT, s string) string {
					resp, err := r.gw.Uint32SliceIsValueExist(bg, &hydrapb.Uint32SliceIsValueExistRequest{IslandID: 1, SwampName: s, Key: key, Value: 7})
					if err != nil {
						return errStr(err)
					}
					return fmt.Sprint("has=", resp.IsExist)
				},
				func(m *refkv, now int64) string {
					r, ok := m.recs[key]
					if !ok {
						m.mkShell()
						return codeErr(codes.InvalidArgument)
					}
					if r.kind != "sl" {
						return unspecified
					}
					for _, x := range r.slice {
						if x == 7 {
							return "has=true"
						}
					}
					return "has=false"
				}},
		)
	}
	for _, keys := range [][]string{{"a"}, {"b"}, {"b", "a"}} {
		keys := keys
		ops = append(ops, c06op{fmt.Sprintf("ShiftByKeys(%v)", keys),
			func(r *rigT, s string) string {
				resp, err := r.gw.ShiftByKeys(bg, &hydrapb.ShiftByKeysRequest{IslandID: 1, SwampName: s, Keys: keys})
				if err != nil {
					return errStr(err)
				}
				return "[" + treasuresStr(resp.Treasures, false) + "]"
			},
			func(m *refkv, now int64) string {
				if !m.exists() {
					if m.shell {
						return unspecified
					}
					return codeErr(codes.FailedPrecondition)
				}
				out := "[" + m.renderKeys(keys, false) + "]"
				for _, k := range keys {
					delete(m.recs, k)
				}
				m.afterRemoval()
				return out
			}})
	}
	ops = append(ops,
		c06op{"FlushToDisk", func(r *rigT, s string) string {
			if !strings.HasPrefix(s, "mem/") {
				r.flush(s)
			}
			return "ok"
		}, func(m *refkv, now int64) string {
			if c06persistent {
				for _, r := range m.recs {
					r.persisted = true
				}
			}
			return "ok"
		}},
		c06op{"CloseAndReopen", func(r *rigT, s string) string {
			if !strings.HasPrefix(s, "mem/") {
				r.closeSwamp(s)
			}
			return "ok"
		}, func(m *refkv, now int64) string {
			if !c06persistent {
				return "ok" // no-op on the in-memory configuration
			}
			m.ghost = map[string]string{} // hidden in-flight records die with the swamp object
			if !m.exists() {
				m.shell = false
			}
			for _, r := range m.recs {
				r.persisted = true
			}
			m.reopened = m.exists()
			return "ok"
		}})
	ops = append(ops, c06op{"Destroy",
		func(r *rigT, s string) string {
			_, err := r.gw.Destroy(bg, &hydrapb.DestroyRequest{IslandID: 1, SwampName: s})
			if err != nil {
				return errStr(err)
			}
			return "ok"
		},
		func(m *refkv, now int64) string {
			m.recs = map[string]*kvRec{}
			m.shell = false
			m.ghost = map[string]string{}
			return "ok"
		}})
	return ops
}

// ---- read suite: every read request, issued after each step, with the model's answer ----

type c06read struct {
	name  string
	run   func(r *rigT, swamp string) string
	model func(m *refkv) string
}

func c06reads() []c06read {
	gone := func(m *refkv, f func() string) string {
		if !m.exists() {
			if m.shell {
				return unspecified
			}
			return codeErr(codes.FailedPrecondition)
		}
		return f()
	}
	var rs []c06read
	for _, key := range []string{"a", "b"} {
		key := key
		rs = append(rs, c06read{"Get(" + key + ")",
			func(r *rigT, s string) string {
				g, err := r.gw.Get(bg, &hydrapb.GetRequest{Swamps: []*hydrapb.GetSwamp{{IslandID: 1, SwampName: s, Keys: []string{key}}}})
				if err != nil {
					return errStr(err)
				}
				return fmt.Sprintf("exist=%v [%s]", g.Swamps[0].IsExist, treasuresStr(g.Swamps[0].Treasures, false))
			},
			func(m *refkv) string {
				return gone(m, func() string { return "exist=true [" + m.renderKeys([]string{key}, true) + "]" })
			}},
			c06read{"IsKeyExist(" + key + ")",
				func(r *rigT, s string) string {
					g, err := r.gw.IsKeyExist(bg, &hydrapb.IsKeyExistRequest{IslandID: 1, SwampName: s, Key: key})
					if err != nil {
						return errStr(err)
					}
					return fmt.Sprint(g.IsExist)
				},
				func(m *refkv) string {
					return gone(m, func() string { _, ok := m.recs[key]; return fmt.Sprint(ok) })
				}})
	}
	rs = append(rs,
		c06read{"GetAll",
			func(r *rigT, s string) string {
				g, err := r.gw.GetAll(bg, &hydrapb.GetAllRequest{IslandID: 1, SwampName: s})
				if err != nil {
					return errStr(err)
				}
				return "[" + treasuresStr(g.Treasures, true) + "]"
			},
			func(m *refkv) string {
				return gone(m, func() string { return "[" + m.renderKeys(m.sortedKeys(), false) + "]" })
			}},
		c06read{"GetByKeys([a b zz])",
			func(r *rigT, s string) string {
				g, err := r.gw.GetByKeys(bg, &hydrapb.GetByKeysRequest{IslandID: 1, SwampName: s, Keys: []string{"a", "b", "zz"}})
				if err != nil {
					return errStr(err)
				}
				return "[" + treasuresStr(g.Treasures, true) + "]"
			},
			func(m *refkv) string {
				return gone(m, func() string { return "[" + m.renderKeys(m.sortedKeys(), false) + "]" })
			}},
		c06read{"Count",
			func(r *rigT, s string) string {
				g, err := r.gw.Count(bg, &hydrapb.CountRequest{Swamps: []*hydrapb.CountRequest_SwampIdentifier{{IslandID: 1, SwampName: s}}})
				if err != nil {
					return errStr(err)
				}
				return fmt.Sprintf("exist=%v count=%d", g.Swamps[0].IsExist, g.Swamps[0].Count)
			},
			func(m *refkv) string {
				return gone(m, func() string { return fmt.Sprintf("exist=true count=%d", len(m.recs)) })
			}},
		c06read{"AreKeysExist([a b])",
			func(r *rigT, s string) string {
				g, err := r.gw.AreKeysExist(bg, &hydrapb.AreKeysExistRequest{IslandID: 1, SwampName: s, Keys: []string{"a", "b"}})
				if err != nil {
					return errStr(err)
				}
				return fmt.Sprintf("a=%v b=%v n=%d", g.Results["a"], g.Results["b"], len(g.Results))
			},
			func(m *refkv) string {
				return gone(m, func() string {
					_, a := m.recs["a"]
					_, b := m.recs["b"]
					return fmt.Sprintf("a=%v b=%v n=2", a, b)
				})
			}},
		c06read{"IsSwampExist",
			func(r *rigT, s string) string {
				g, err := r.gw.IsSwampExist(bg, &hydrapb.IsSwampExistRequest{IslandID: 1, SwampName: s})
				if err != nil {
					return errStr(err)
				}
				return fmt.Sprint(g.IsExist)
			},
			func(m *refkv) string {
				if !m.exists() && m.shell {
					return unspecified
				}
				return fmt.Sprint(m.exists())
			}},
	)
	return rs
}

// agree compares a real rendering with the model's (an <unspecified> suffix compares only what precedes it).
func agree(real, model string) bool {
	if i := strings.Index(model, unspecified); i >= 0 {
		return strings.HasPrefix(real, strings.TrimRight(model[:i], " "))
	}
	if strings.Contains(model, "<meta-unspecified>") {
		// compare record renderings up to the metadata of records marked unknown
		return metaBlind(real) == metaBlind(model)
	}
	return real == model
}

// metaBlind strips the metadata part of every record rendering.
func metaBlind(s string) string {
	parts := strings.Split(s, " | ")
	for i, p := range parts {
		if j := strings.Index(p, " c="); j >= 0 {
			end := ""
			if strings.HasSuffix(p, "]") {
				end = "]"
			}
			parts[i] = p[:j] + end
		}
		parts[i] = strings.Replace(parts[i], " <meta-unspecified>", "", 1)
	}
	return strings.Join(parts, " | ")
}

func (m *refkv) canon() string {
	var b strings.Builder
	for _, k := range m.sortedKeys() {
		b.WriteString(m.recs[k].render(k))
		fmt.Fprintf(&b, " on-disk=%v;", m.recs[k].persisted)
	}
	if !m.exists() {
		m.reopened = false
	}
	fmt.Fprintf(&b, "shell=%v reopened=%v ghosts=%d", m.shell && !m.exists(), m.reopened, len(m.ghost))
	if m.exists() {
		var rk []string
		for k := range m.removed {
			if _, back := m.recs[k]; !back {
				rk = append(rk, k)
			}
		}
		sort.Strings(rk)
		fmt.Fprintf(&b, " removed-in-this-instance=%v", rk)
	}
	return b.String()
}

// c06class names a disagreement by observable facts.
func c06class(opName, real, model string) string {
	op := opName
	if i := strings.Index(op, "("); i >= 0 {
		op = op[:i]
	}
	short := func(s string) string {
		s = strings.NewReplacer("1700000001.000000000", "T1", "1700000002.000000000", "T2", "1700000003.000000000", "T3", "1700000009.000000000", "T9").Replace(s)
		if len(s) > 60 {
			s = s[:60]
		}
		return s
	}
	switch {
	case strings.HasPrefix(real, "err:") && !strings.HasPrefix(model, "err:"):
		return op + ":unexpected-" + real
	case !strings.HasPrefix(real, "err:") && strings.HasPrefix(model, "err:"):
		return op + ":expected-" + model
	case strings.Contains(real, "NOTHING_CHANGED") != strings.Contains(model, "NOTHING_CHANGED") || strings.Contains(real, "UPDATED") != strings.Contains(model, "UPDATED"):
		return op + ":status:" + short(real) + "-vs-" + short(model)
	}
	return op + ":answer-differs"
}

func TestC06(t *testing.T) {
	rigSetup()
	logs := &logCap{}
	logs.install()
	r := kit.Start("C06", "model_checking")
	defer r.Finish()
	ops, reads := c06ops(), c06reads()
	depth := 3
	if !r.Quick() {
		depth = 5
	}
	r.Extra["alphabet_size"] = len(ops)
	r.Extra["read_suite"] = len(reads)
	r.Extra["depth"] = depth
	r.Rule = fmt.Sprintf("breadth-first search over reference-model states (refkv: key -> {type, value, five metadata fields}), %d requests on keys a,b (Set with the four CreateIfNotExist/Overwrite combinations, three value types, a uint32 set and metadata; Delete; IncrementInt32 with every relational condition true/false and SetIfExist/SetIfNotExist metadata; IncrementInt8/Uint64/Float64; Uint32SlicePush/Delete/Size/IsValueExist; ShiftByKeys; Destroy), depth %d, on an in-memory swamp, a persistent one (write interval 1 s), an immediate-write one, and an in-memory swamp that already holds record b; FlushToDisk (the write-interval flush) and CloseAndReopen are part of the alphabet for the persistent swamps; a model state is expanded once; each transition replays the shortest history on a fresh swamp of an in-process server and issues one more request; its response, then %d read requests (Get, IsKeyExist per key; GetAll; GetByKeys; Count; AreKeysExist; IsSwampExist) are compared with the model; the client thread must return (exact deadlock detection). Fields the documentation leaves open are marked unspecified in the model and not compared (listed in assumptions). Non-trivial = transitions whose request changes the model state", len(ops), depth, len(reads))
	r.Assumptions = []string{
		"single client, requests one at a time; virtual clock advanced 1 s per request",
		"unspecified (not compared): whether a swamp that an operation summoned but stored nothing in 'exists'; metadata of a record after an Increment whose condition failed; Uint32SlicePush/IsValueExist on a key holding another type; effect of Uint32SliceDelete on a key holding another type",
		"an emptied uint32 set is removed together with an emptied swamp (SDK documentation of Uint32SliceDelete)",
	}
	first := !r.IsWorker() || r.Mine(0)
	r.Parallel(16, "TestC06", func() {
		for _, conf := range []string{"mem", "dsk", "imm", "mem+b"} {
			type node struct{ hist []int }
			seen := map[string]bool{newRefkv().canon(): true}
			frontier := []node{{}}
			if conf == "mem+b" {
				// the same search started from a swamp that already holds record b: deletes of a never empty (and so
				// never destroy) the swamp, which the plain search reaches only one step deeper
				for oi, o := range ops {
					if strings.HasPrefix(o.name, "Set(b,") && strings.Contains(o.name, "create=true,overwrite=true,meta=false") {
						frontier = []node{{hist: []int{oi}}}
						break
					}
				}
			}
			for d := 1; d <= depth; d++ {
				last := d == depth
				count := last || first
				var hists [][]int
				for _, n := range frontier {
					for o := range ops {
						hists = append(hists, append(append([]int{}, n.hist...), o))
					}
				}
				type obs struct {
					step            string
					real, model     string
					reads, expected []string
					changed         bool
					canon           string
					ghostKey        bool // the last request targets a key with a hidden record (known finding precondition)
				}
				results := make([]*obs, len(hists))
				want := func(i int) bool { return (!last || r.Mine(i)) && !r.OutOfTime() }
				bad := rigBatch(len(hists), want, func(rg *rigT, i int) {
					swamp := fmt.Sprintf("%s/r/h%d", strings.TrimSuffix(conf, "+b"), i)
					if conf == "mem+b" {
						swamp = fmt.Sprintf("mem/rb/h%d", i)
					}
					c06persistent = conf != "mem" && conf != "mem+b"
					m := newRefkv()
					o := &obs{}
					results[i] = o
					for si, oi := range hists[i] {
						vrt.Advance(1e9)
						before := m.canon()
						o.ghostKey = false
						for k := range m.ghost {
							if strings.Contains(ops[oi].name, "("+k+",") || strings.Contains(ops[oi].name, "("+k+")") {
								o.ghostKey = true
							}
						}
						o.step = ops[oi].name
						o.real = ops[oi].run(rg, swamp)
						had := map[string]bool{}
						for k := range m.recs {
							had[k] = true
						}
						wasReopened := m.reopened
						o.model = ops[oi].model(m, nowNS(si+1))
						// hidden-state bookkeeping for the search key (never compared with the server)
						if !m.exists() || (m.reopened && !wasReopened) || strings.HasPrefix(ops[oi].name, "CloseAndReopen") {
							m.removed = nil
						} else {
							for k := range had {
								if _, still := m.recs[k]; !still {
									if m.removed == nil {
										m.removed = map[string]bool{}
									}
									m.removed[k] = true
								}
							}
						}
						o.changed = m.canon() != before
					}
					for _, rd := range reads {
						o.reads = append(o.reads, rd.run(rg, swamp))
						o.expected = append(o.expected, rd.model(m))
					}
					o.canon = m.canon()
					rg.destroy(swamp)
				})
				if r.OutOfTime() {
					r.NotExhaustive("time budget reached")
					return
				}
				var next []node
				for i, hist := range hists {
					var hn []string
					for _, x := range hist {
						hn = append(hn, ops[x].name)
					}
					if x, ok := bad[i]; ok {
						if count {
							r.Eval(1)
							cs := map[string]any{"config": conf, "history": hn}
							if x.Deadlock || x.Horizon {
								r.Fail("api", c06opname(hn[len(hn)-1])+":request-never-returns", fmt.Sprintf("[%s] history %v: the client thread is blocked forever: %v", conf, hn, x.Blocked), cs)
							}
							for _, pn := range x.Panics {
								r.Fail("api", "panic", fmt.Sprintf("[%s] history %v: %s", conf, hn, pn), cs)
							}
						}
						continue
					}
					o := results[i]
					if o == nil {
						continue
					}
					ghostHit := o.ghostKey && !agree(o.real, o.model)
					for j := range reads {
						ghostHit = ghostHit || (o.ghostKey && !agree(o.reads[j], o.expected[j]))
					}
					if ghostHit {
						if count {
							r.Eval(1)
							r.Fail("api", "hidden-record-after-failed-conditional-increment", fmt.Sprintf("[%s] history %v: a conditional increment failed on a key that did not exist; the server kept a hidden typed record for it, so the next request on that key answers {%s} where the model says {%s}", conf, hn, o.real, o.model), map[string]any{"config": conf, "history": hn})
						}
						continue // the model no longer describes this swamp: do not expand
					}
					if !seen[o.canon] {
						seen[o.canon] = true
						next = append(next, node{hist})
						if count {
							r.Outcome(conf + o.canon)
						}
					}
					if !count {
						continue
					}
					r.Eval(1)
					r.Count("transitions", 1)
					if o.changed {
						r.Nontrivial(fmt.Sprintf("%s/%v", conf, hist))
					}
					cs := map[string]any{"config": conf, "history": hn, "response": o.real, "model_response": o.model}
					if !agree(o.real, o.model) {
						r.Fail("api", c06class(o.step, o.real, o.model), fmt.Sprintf("[%s] history %v: response {%s}, model {%s}", conf, hn, o.real, o.model), cs)
					}
					for j, rd := range reads {
						if !agree(o.reads[j], o.expected[j]) {
							cs2 := map[string]any{"config": conf, "history": hn, "read": rd.name, "response": o.reads[j], "model_response": o.expected[j]}
							r.Fail("api", "after-"+c06opname(o.step)+":"+c06opname(rd.name)+"-differs", fmt.Sprintf("[%s] after history %v: %s answers {%s}, model {%s}", conf, hn, rd.name, o.reads[j], o.expected[j]), cs2)
							break
						}
					}
					if d == 2 && o.changed {
						r.Sample(cs)
					}
				}
				frontier = next
				if first {
					r.Count("model_states_"+conf, int64(len(next)))
				}
			}
		}
	})
	for _, l := range logs.take() {
		if strings.Contains(l, "panic") {
			r.Count("recovered_panics_logged", 1)
		}
	}
	_ = sort.Strings
}

// c06persistent tells the model functions which configuration the running history uses.
var c06persistent bool

func c06opname(s string) string {
	if i := strings.Index(s, "("); i >= 0 {
		return s[:i]
	}
	return s
}
