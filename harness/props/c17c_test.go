package props

import (
	"context"
	"fmt"
	"strings"

	"github.com/hydraide/hydraide/app/name"
	"github.com/hydraide/hydraide/app/vshim/vrt"
	"verifharness/kit"
)

// Part C of C17 (and of C18): the summon protocol of hydra under close / destroy / shutdown, driven directly at the
// hydra API so that many participants stay affordable. Setup: an in-memory swamp exists and one operation is in flight
// on it (a vigil is held). Participants: D destroys the swamp (waits for the vigil), V ends the in-flight operation,
// k summoners ask for the same swamp (they queue on the per-name slot and wait for the closing instance), X asks for it with a context that has already ended, M marks the
// server as shutting down. Quick tier: every order in which the participants can be started and resumed when the
// running one blocks or finishes (no preemption); thorough tier: additionally every schedule with one preemption inside
// hydra.SummonSwamp / vigil / Destroy.
// Oracles: every participant finishes (C17); never two live instances of the name (C18, through the probes).

var c17cDebug bool

type c17cProg struct {
	summoners int
	destroy   bool
	mark      bool
	cancelled int // further summoners whose context has already ended when they call
}

func (p c17cProg) String() string {
	s := fmt.Sprintf("summoners=%d destroy=%v shutdown-mark=%v", p.summoners, p.destroy, p.mark)
	if p.cancelled > 0 {
		s += fmt.Sprintf(" cancelled-summoners=%d", p.cancelled)
	}
	return s
}

func c17cExplore(r *kit.Run, prop string) {
	rigSetup()
	lcLogs.install()
	progs := []c17cProg{{2, true, false, 0}, {2, true, true, 0}, {3, true, true, 0}, {2, true, false, 1}}
	bound := 0
	if !r.Quick() {
		progs = append(progs, c17cProg{3, true, false, 0}, c17cProg{3, false, true, 0}, c17cProg{2, true, true, 1})
		bound = 1
	}
	var pn []string
	for _, p := range progs {
		pn = append(pn, p.String())
	}
	r.Extra["summon_protocol_programs"] = pn
	set := []string{"hydra.(*hydra).SummonSwamp", "hydra.(*hydra).getSwamp", "hydra.(*hydra).MarkShuttingDown", "(*swamp).Destroy", "vigil.", "WaitForGracefulClose", "closeEventCallbackFunction"}
	for pi, pr := range progs {
		pr := pr
		body := func() {
			c := &lcCtx{rg: lcRig(), swamp: "mei/r/sp", live: map[string]int{}, logs: lcLogs}
			lcc = c
			h := c.rg.z.GetHydra()
			nm := name.Load(c.swamp)
			s0, err := h.SummonSwamp(bg, 1, nm)
			if err != nil {
				panic(err)
			}
			s0.BeginVigil() // an operation is in flight
			vrt.Drain()
			var ths []*vrt.Thread
			if pr.destroy {
				ths = append(ths, vrt.Go("D:Destroy", func() { s0.Destroy() }))
			}
			ths = append(ths, vrt.Go("V:CeaseVigil", func() { s0.CeaseVigil() }))
			for i := 0; i < pr.summoners; i++ {
				ths = append(ths, vrt.GoSym(fmt.Sprintf("S%d:Summon", i), "summoner", func() {
					if s, err := h.SummonSwamp(bg, 1, nm); err == nil && s != nil {
						s.BeginVigil()
						s.CeaseVigil()
					}
				}))
			}
			for i := 0; i < pr.cancelled; i++ {
				ths = append(ths, vrt.Go(fmt.Sprintf("X%d:Summon(ended context)", i), func() {
					ctx, cancel := context.WithCancel(bg)
					cancel()
					if s, err := h.SummonSwamp(ctx, 1, nm); err == nil && s != nil {
						s.BeginVigil()
						s.CeaseVigil()
					}
				}))
			}
			if pr.mark {
				ths = append(ths, vrt.Go("M:MarkShuttingDown", func() { h.MarkShuttingDown() }))
			}
			for _, th := range ths {
				vrt.Join(th)
			}
			vrt.Quiesce()
		}
		e := &vrt.Explorer{Body: body, Stop: r.OutOfTime}
		e.Shard, e.ShardN = r.Shard()
		e.Cfg = vrt.Config{Bound: bound, Sites: true, NoPreempt: func(l string) bool { return lcNoPreemptIn(set, l) }, StepCap: 200000, Probe: lcProbe, EnvIdle: true}
		e.Check = func(x *vrt.Exec) {
			r.Eval(1)
			r.Count("summon_protocol_executions", 1)
			cs := map[string]any{"program": pr.String(), "schedule": x.Choices(), "deviations": x.Cost}
			compute := func(x *vrt.Exec) []vfail {
				c := lcc
				var out []vfail
				if x.Deadlock || x.Horizon {
					if prop == "C17" {
						var bl []string
						for _, b := range x.Blocked {
							if i := strings.Index(b, "@"); i >= 0 {
								b = b[:strings.Index(b, ":")] + " in " + b[i+1:]
							}
							bl = append(bl, b)
						}
						out = append(out, vfail{"summon-protocol", "summoner-or-destroyer-blocked-forever", fmt.Sprintf("%s: every in-flight operation has finished, yet these participants wait forever: %v", pr, bl)})
					}
					return out
				}
				for _, pn := range x.Panics {
					out = append(out, vfail{"summon-protocol", "thread-panic", pn})
				}
				if prop == "C18" {
					out = append(out, c.viol...)
				}
				return out
			}
			vrtReport(r, e.Cfg, body, x, compute, cs)
			if x.Cost > 0 {
				r.Nontrivial(fmt.Sprintf("sp%d/%v", pi, x.Choices()))
			}
			r.Outcome(fmt.Sprintf("sp%d|%v|%d", pi, x.Deadlock, lcc.created))
		}
		e.Run()
		if c17cDebug {
			fmt.Printf("sp prog %s bound %d: execs=%d deadlocks=%d maxpoints=%d\n", pr, e.Cfg.Bound, e.Stats.Execs, e.Stats.Deadlocks, e.Stats.MaxPoints)
		}
		if e.Stats.Capped {
			r.NotExhaustive(fmt.Sprintf("summon-protocol program %s capped after %d executions", pr, e.Stats.Execs))
		}
	}
}
