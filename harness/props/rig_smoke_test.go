package props

import (
	"fmt"
	"testing"

	"github.com/hydraide/hydraide/app/vshim/vrt"
	hydrapb "github.com/hydraide/hydraide/sdk/go/hydraidego/v3/hydraidepbgo"
)

func TestRigSmoke(t *testing.T) {
	rigSetup()
	for _, sanct := range []string{"mem", "dsk", "imm"} {
		x := vrt.RunOnce(&vrt.Config{Bound: 0, TraceOn: true, Sites: true}, nil, func() {
			r := newRig(true)
			v := "hello"
			resp, err := r.gw.Set(bg, &hydrapb.SetRequest{Swamps: []*hydrapb.SwampRequest{{IslandID: 1, SwampName: sw(sanct), CreateIfNotExist: true, Overwrite: true,
				KeyValues: []*hydrapb.KeyValuePair{{Key: "a", StringVal: &v}}}}})
			fmt.Println("set:", resp, err)
			g, err := r.gw.Get(bg, &hydrapb.GetRequest{Swamps: []*hydrapb.GetSwamp{{IslandID: 1, SwampName: sw(sanct), Keys: []string{"a", "zz"}}}})
			fmt.Println("get:", err)
			if g != nil {
				fmt.Println(treasuresStr(g.Swamps[0].Treasures, false))
			}
			fmt.Println("closed:", r.closeSwamp(sw(sanct)))
			g, err = r.gw.Get(bg, &hydrapb.GetRequest{Swamps: []*hydrapb.GetSwamp{{IslandID: 1, SwampName: sw(sanct), Keys: []string{"a", "zz"}}}})
			fmt.Println("get after close:", err)
			if g != nil && len(g.Swamps) > 0 {
				fmt.Println(treasuresStr(g.Swamps[0].Treasures, false))
			}
		})
		fmt.Println(sanct, "deadlock", x.Deadlock, "horizon", x.Horizon, "steps", x.Steps, "threads", x.MaxThread, "panics", x.Panics, "blocked", x.Blocked)
		if sanct == "imm" {
			for _, s := range x.Trace {
				fmt.Println("  ", s)
			}
		}
	}
}
