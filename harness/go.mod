module verifharness

go 1.26.2

require (
	github.com/golang/snappy v1.0.0
	github.com/google/uuid v1.6.0
	github.com/hydraide/hydraide v0.0.0
	github.com/hydraide/hydraide/sdk/go/hydraidego/v3 v3.0.0-00010101000000-000000000000
	github.com/vmihailenco/msgpack/v5 v5.4.1
	google.golang.org/grpc v1.81.0
	google.golang.org/protobuf v1.36.11
)

require (
	github.com/cespare/xxhash/v2 v2.3.0 // indirect
	github.com/klauspost/compress v1.18.5 // indirect
	github.com/pierrec/lz4 v2.6.1+incompatible // indirect
	github.com/shirou/gopsutil v3.21.11+incompatible // indirect
	github.com/tklauser/go-sysconf v0.3.16 // indirect
	github.com/tklauser/numcpus v0.11.0 // indirect
	github.com/vmihailenco/tagparser/v2 v2.0.0 // indirect
	golang.org/x/net v0.53.0 // indirect
	golang.org/x/sys v0.43.0 // indirect
	golang.org/x/text v0.36.0 // indirect
	google.golang.org/genproto/googleapis/rpc v0.0.0-20260427160629-7cedc36a6bc4 // indirect
)

replace github.com/hydraide/hydraide => /repo

replace github.com/hydraide/hydraide/sdk/go/hydraidego/v3 => /repo/sdk/go/hydraidego
